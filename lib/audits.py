"""Syntactic audits regenerated from the current tree (belt and braces; they decide nothing by
themselves: a mismatch makes the check INCONCLUSIVE so that the harness list gets reviewed)."""
import os
import re
import glob

VERIF = os.path.dirname(os.path.dirname(os.path.abspath(__file__)))

OBS = re.compile(r"buf_len\(\)|\.buf\(\)|is_complete\(\)|\.request\(|buf_ptr\(\)|is_at_end\(\)")


def _strip(line):
    return line.split("//")[0]


def observation_sites(repo):
    """C01 link 2: the places where parser-side code can observe HOW MUCH is buffered (as opposed to
    WHAT the stream contains). Each must be covered by a schedule-independence harness. Compared as
    a multiset of (file, normalised line) with harness/observation_sites.txt."""
    found = []
    files = [os.path.join(repo, "flussab/src/text.rs")]
    for crate in ("flussab-cnf", "flussab-aiger", "flussab-btor2"):
        files += sorted(glob.glob(os.path.join(repo, crate, "src", "*.rs")))
    for f in files:
        try:
            lines = open(f).read().splitlines()
        except OSError:
            continue
        for ln in lines:
            code = _strip(ln)
            if OBS.search(code):
                found.append("%s: %s" % (os.path.relpath(f, repo), " ".join(code.split())))
    allow = [l.rstrip("\n") for l in open(os.path.join(VERIF, "harness", "observation_sites.txt")) if l.strip() and not l.startswith("#")]
    extra = sorted(set(found) - set(allow))
    if extra or sorted(found) != sorted(allow) and len(found) > len(allow):
        return False, "new site(s) where code observes the buffered amount, not covered by a harness: " + "; ".join(extra[:5])
    return True, "%d sites, all on the allow-list" % len(found)


def dump_sites(repo):
    found = []
    files = [os.path.join(repo, "flussab/src/text.rs")]
    for crate in ("flussab-cnf", "flussab-aiger", "flussab-btor2"):
        files += sorted(glob.glob(os.path.join(repo, crate, "src", "*.rs")))
    for f in files:
        for ln in open(f).read().splitlines():
            code = _strip(ln)
            if OBS.search(code):
                found.append("%s: %s" % (os.path.relpath(f, repo), " ".join(code.split())))
    return found


if __name__ == "__main__":
    print("\n".join(dump_sites("/repo")))
