#!/usr/bin/env python3
"""Merge the hand-written description of each seeded change into seeded/<id>/meta.json and
generate seeded/SUMMARY.md from the confirmation and detection records."""
import json, os
VERIF = os.path.dirname(os.path.dirname(os.path.abspath(__file__)))
D = {
 "C01_1": ("C01 (also C02, C08)", "request_more: mark rebase swapped with pos_in_buf = 0 (re-introduces D1)", "a realign (cursor > 2 chunks into the buffer) while a marked token is being scanned; error column then depends on chunking"),
 "C01_2": ("C01 (also C07, C16)", "text::newline peeks buf().get(offset+1) instead of requesting the byte after CR", "a read() result that ends exactly between CR and LF"),
 "C02_1": ("C02", "request_more: parentheses dropped in the shrink guard, live look-ahead truncated and refilled with zeros", "large look-ahead, then advance > 2 chunks, then a refill: buffer longer than window+chunk but window longer than half the buffer"),
 "C02_2": ("C02", "request_cold: refill loop replaced by a bound of missing/chunk+2 refills", "a source returning short reads so that more refills are needed than the bound (>= 5 missing bytes at chunk 2)"),
 "C03_1": ("C03", "binary write_binary_uint: loop guard code > 0x80 instead of > 0x7f", "a delta whose last 7-bit group is exactly 0x80 (128, 16384..16511, ...)"),
 "C03_2": ("C03", "btor2 try_node: node_buf.clear() dropped in the justice arm", "a second justice line on the same parser: earlier conditions are prepended"),
 "C04_1": ("C04", "LineReader::give_up_at_cold skips the parked-I/O-error check when the reported position lies before the cursor", "a fault inside an AIGER literal whose delivered prefix fails a range/assigning check (error reported at the mark)"),
 "C04_2": ("C04", "request_more treats Err(UnexpectedEof) like Ok(0): error not stored", "a source failing with ErrorKind::UnexpectedEof specifically"),
 "C05_1": ("C05", "cnf interactive_skip_line: offset != 0 guard dropped (success with zero progress)", "parse_log with ignore_unknown_lines and a failing source: spins forever"),
 "C05_2": ("C05", "btor2 justice arm: node_buf.reserve(count as usize) from the declared count", "a justice line declaring a huge count: capacity overflow panic / huge allocation"),
 "C06_1": ("C06 (also C13)", "ascii_digits_cont_pos: overflow = overflowed instead of |= after the *10 step", "a number of >= 9 digits that overflows before its last digit, with >= 8 bytes buffered (fast path)"),
 "C06_2": ("C06", "binary Header::parse: limit -= latch_count moved after the and-gate-count check", "binary header with latches and M-I-L < A <= M-I: accepted although I+L+A > M"),
 "C07_1": ("C07", "same change as C01_2 (newline CR look-ahead)", "read boundary between CR and LF"),
 "C07_2": ("C07", "cnf next_clause: skip_whitespace moved into the 'clause limit not reached' branch", "header with clause count, all clauses read, then a line starting with a blank"),
 "C08_1": ("C08 (also C02)", "request_more: realign with an empty window skips rebasing pos_of_buf/mark but zeroes pos_in_buf", "> 2 chunks consumed and a read() ending exactly at the cursor: position() jumps backwards, column underflows"),
 "C08_2": ("C08", "cnf comment: line_at_offset and the following tabs_or_spaces swapped", "a comment line followed by an indented line containing the error: column too small by the indentation"),
 "C09_1": ("C09 (also C02)", "request_cold: loop bound valid_len <= len instead of <", "a refill that brings the buffer to exactly len bytes: one extra read()"),
 "C09_2": ("C09", "btor2 ascii_lowercase_u64_cold: keeps requesting all 8 offsets after the keyword ended", "fewer than 8 bytes buffered from the keyword start (line-by-line input with short lines)"),
 "C10_1": ("C10", "request_more: realign additionally requires pos_in_buf + valid_len == buf.len()", "a source returning short reads: never realigns, buffer grows with the input"),
 "C10_2": ("C10", "cnf comment: look-ahead over a whole run of consecutive comment lines before advancing", "a long run of consecutive comment lines is held in memory (parse results unchanged)"),
 "C11_1": ("C11", "write_all_defer_err_cold: panicked = false reset dropped after the write-through", "a write >= capacity, then small writes, then drop without flush: final flush skipped"),
 "C11_2": ("C11 (also C14)", "write::text::ascii_digits reserves I::MAX_LEN - 1 bytes", "exactly MAX_LEN-1 bytes free and a value needing MAX_LEN characters (e.g. i8 -128 with 3 bytes free)"),
 "C13_1": ("C13 (also C14)", "ascii_digits_multi: fast path guard buf_len() < offset + 7", "exactly offset+7 bytes buffered: 8-byte load reads one byte past the buffered data"),
 "C13_2": ("C13", "ascii_digits_cont_pos: overflow flag of the 8-digit prefix dropped (overflow = false)", "8+ digits whose first 8 do not fit the type (8/16-bit types), fast path"),
 "C14_1": ("C14", "request_more: Read-contract assert weakened to n <= free space in the buffer", "a source over-reporting its byte count when the buffer is longer than window+chunk (after realign / lowered chunk size)"),
 "C14_2": ("C14", "write::text::ascii_digits reserves a fixed 20 bytes", "i128/u128 values of >= 21 characters with 20..len-1 bytes free: write past the allocation"),
 "C15_1": ("C15", "Parsed::or_always_parse runs the alternative on any non-success", "receiver Res(Err(_))"),
 "C15_2": ("C15", "Parsed::and_also turns a continuation failure into Fallthrough", "Res(Ok) receiver with failing continuation"),
 "C16_1": ("C16", "text::fixed: first byte checked, then request(offset+len) and slice compare", "first byte matches, later byte mismatches, tail not yet buffered: over-read"),
 'C03_3': ('C03', 'binary write_binary_uint: single-byte fast path for code <= 0x80 (should be < 0x80)', 'an and gate whose delta is exactly 128 (needs >= 64 variables)'),
 'C03_4': ('C03 (also C01)', "btor2 ascii_lowercase_u64_cold: 'reading' latch removed, returns position of the last lowercase letter in the 8-byte window", 'fewer than 8 bytes buffered at a keyword start and a second lowercase run within the window'),
 'C06_3': ('C06', 'cnf clause_lits: range check skipped when the limit is the hard (type) limit', 'no header / ignore_header and a literal beyond L::MAX_DIMACS that fits isize (i8/i16/i32 literal types): truncated by from_dimacs'),
 'C09_3': ('C09', 'cnf interactive_newline: only a plain LF handled inline, everything else delegated to token::newline (which eats leading blanks of the next line)', 'CRLF line ends arriving line by line: one extra read past the completing line'),
 'C04_3': ('C04', "parse_log: with ignore_unknown_lines, 'no line can be skipped' breaks out of the loop as end of input", 'ignore_unknown_lines(true) and a source failing between statements: Ok(log) returned'),
 'C05_3': ('C05', 'ascii Parser::parse: justice_properties.push(Vec::with_capacity(justice_property_size))', 'a justice size line declaring a huge count: allocation / capacity overflow from a 31-byte input'),
 'C11_3': ('C11', 'write_all_defer_err_cold: write-through uses write() instead of write_all()', 'a slice >= capacity and a sink doing a short write or returning Interrupted'),
 'C02_3': ('C02', 'request_more: shrink guard buf.len() > valid_len + 4*chunk (was 4*(pos+valid+chunk))', 'large look-ahead, advance > 2 chunks, refill: truncate cuts live look-ahead, refilled with zeros'),
 'C07_3': ('C07 (also C01)', 'cnf comment: scans the already buffered slice for the newline instead of next_newline; end of buffer = end of comment', 'a comment line that crosses a read boundary: its tail is parsed as content'),
 'C08_3': ('C08', 'btor2 skip_whitespace: line bookkeeping once after the loop, line_start ends up after the indentation', 'an error on an indented line that follows a comment / blank line: column too small by the indentation'),
 'C13_3': ('C13', 'ascii_digits_cont_pos / cont_neg: early exit on overflow, offset stops inside the digit run', 'fast path (>= offset+8 bytes buffered), run of >= 8 digits, overflow before the last digit'),
 'C14_3': ('C14', 'DeferredReader::advance stores the wrapped valid_len before the overflow check panics (re-introduces D2)', 'advance(n > buffered) caught with catch_unwind, then any accessor'),
 'C06_4': ('C06', 'binary Header::parse: `limit -= latch_count` removed (and-gate count checked against M - I)', 'binary header with latches and M-I-L < A <= M-I'),
 'C01_3': ('C01', 'aiger fixed_not_eol peeks buf().get(offset) instead of requesting the byte after the keyword', "C > 0, a comment section, and a read ending exactly after its 'c'"),
 'C03_5': ('C03', 'ascii write_header: optional B C J F counts kept only up to the first zero (take_while) instead of up to the last non-zero', 'an unused optional section before a used one (e.g. constraints without bad-state properties)'),
 'C06_5': ('C06', 'gcnf Parser::new: group limit installed iff clause_count != 0 (copy-paste slip for group_count)', 'header with clause count 0 and a non-zero group count; a clause in a group above it is accepted'),
 'C09_4': ('C09', 'btor2 ascii_lowercase_u64_cold: match guard keeps requesting all 8 offsets after the keyword ended (variant of C09_2)', 'line-by-line input and fewer than 8 bytes from the keyword to the end of the line'),
 'C04_4': ('C04', 'aiger eof(): check_io_error().is_ok() instead of io_error().is_none(): the parked error is consumed, the caller reports a syntax error', 'a source failing exactly where the file could legally end'),
 "C16_2": ("C16", "same change as C01_2 (newline CR look-ahead)", "read boundary between CR and LF"),
 'C03_6': ('C03', 'same change as C03_2 (btor2 node_buf.clear() dropped in the justice arm), written independently by a second sub-agent', 'two or more justice lines parsed by the same Parser'),
 'C04_5': ('C04', 'btor2 comment_body: the parked-error check is guarded by reader.is_at_end() (cursor not yet advanced) instead of request_byte_at_offset(offset).is_none()', 'a source failing inside a non-empty BTOR2 comment body before its newline: truncated comment handed out, IoError only on the next call'),
 'C10_3': ('C10', 'cnf token::newline skips a whole run of blank/whitespace-only lines by look-ahead and advances once at the end', 'a run of consecutive empty or whitespace-only lines longer than a few chunks: buffer grows with the run (results and positions unchanged)'),
 'C15_3': ('C15', 'Parsed::map collapses Res(Err(e)) into Fallthrough (error dropped, alternatives run after commitment)', 'map applied to a parser that matched and then failed, followed by or_parse / optional / matches / or_give_up; no in-tree use of map wraps a failing parser'),
 'C16_3': ('C16', 'text::next_newline scans the buffered slice first, then sets offset = buf.len() (moves backwards when the start offset lies beyond the buffered data)', 'start offset beyond the bytes buffered so far with an LF in the unbuffered region; the DIMACS tokenizers never call it that way'),
}
rows = []
for sid in sorted(D):
    d = os.path.join(VERIF, "seeded", sid)
    mp = os.path.join(d, "meta.json")
    meta = json.load(open(mp)) if os.path.exists(mp) else {}
    meta["id"] = sid
    meta["breaks_property"], meta["change"], meta["needs_to_manifest"] = D[sid]
    meta["source"] = "written by a fresh sub-agent that saw only the property text and a scratch worktree; re-confirmed by lib/seedtool.py confirm"
    json.dump(meta, open(mp, "w"), indent=1)
    conf = meta.get("confirmation", {}).get("confirmed")
    det = meta.get("detection", {})
    res = det.get("results", {})
    caught = det.get("detected")
    by = []
    for item, r in res.items():
        for l in r.get("lines", []):
            if l.startswith("VIOLATION"):
                by.append(item.split(":")[0] + ":" + l.split("/")[-1].replace(".md", ""))
    note = meta.get("miss_reason", "")
    rows.append((sid, D[sid][0], D[sid][1], "yes" if conf else "NO", "CAUGHT" if caught else ("missed" if det else "not run"), ", ".join(sorted(set(by)))[:160], note))
with open(os.path.join(VERIF, "seeded", "SUMMARY.md"), "w") as f:
    f.write("# Seeded changes and the checks that catch them\n\n(generated by lib/seedmeta.py from seeded/*/meta.json; detection = quick tier of the listed property checks)\n\n")
    f.write("| id | breaks | change | confirmed | quick checks | harnesses reporting VIOLATION | note |\n|---|---|---|---|---|---|---|\n")
    for r in rows:
        f.write("| " + " | ".join(r) + " |\n")
    n = len(rows); c = len([r for r in rows if r[4] == "CAUGHT"])
    f.write("\n%d of %d caught.\n" % (c, n))
print(open(os.path.join(VERIF, "seeded", "SUMMARY.md")).read()[-400:])
