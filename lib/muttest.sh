#!/bin/bash
# development helper: muttest.sh <name> <sed-expr> <file> -- <verif check args...>
# applies a sed mutation in a scratch worktree of /repo and runs a check against it (VERIF_REPO)
name=$1; expr=$2; file=$3; shift 4
wt=/tmp/mutwt_$name
git -C /repo worktree remove --force $wt >/dev/null 2>&1
git -C /repo worktree add --detach $wt HEAD >/dev/null 2>&1 || exit 3
cp /repo/Cargo.lock $wt/Cargo.lock 2>/dev/null
sed -i -E "$expr" $wt/$file
git -C $wt diff --stat | tail -1
VERIF_REPO=$wt VERIF_NO_EVIDENCE=1 /verif/verif check "$@" 2>&1 | grep -E "^(VIOLATION|OK|INCONCLUSIVE|  \[)" | grep -v " PASS "
git -C /repo worktree remove --force $wt; git -C /repo worktree prune
