"""Registry: harness groups (what is overlaid where, which harnesses, bounds) and properties."""

Q = ("quick",)
T = ("thorough",)
QT = ("quick", "thorough")

GROUPS = {}
PROPERTIES = {}

# --------------------------------------------------------------------------------------------
# real DeferredReader, one-step induction (in-crate; private fields)

GROUPS["reader_step"] = {
    "name": "reader_step",
    "package": "flussab",
    "prefix": "deferred_reader::verif_reader::",
    "overlay": [("flussab/src/deferred_reader.rs", "reader", "harness/flussab/reader_step.rs")],
    "inject": [("flussab/src/deferred_reader.rs", r"pub fn request_more\(&mut self\) -> bool \{\n",
                "        #[cfg(kani)]\n        if unsafe { verif_reader::USE_CONTRACT } {\n            return self.request_more_contract();\n        }\n"),
               ("flussab/src/deferred_reader.rs", r"fn advance_cold\(&self\) -> ! \{\n",
                "        #[cfg(kani)]\n        verif_reader::panic_point(self);\n"),
               ("flussab/src/deferred_reader.rs", r"Ok\(n\) => \{\n(?=(\s*//.*\n)*\s*assert!\(\s*n\b)",
                "                    #[cfg(kani)]\n                    verif_reader::pre_read_assert(self);\n")],
    "params_crates": ["flussab"],
    "params": {
        "quick": {"CAP": 6, "MAXCHUNK": 2, "MAXREQ": 3, "SCAP": 12},
        "thorough": {"CAP": 10, "MAXCHUNK": 4, "MAXREQ": 5, "SCAP": 20},
    },
    "timeout": {"quick": 1500, "thorough": 5400},
    "flags": ["--default-unwind", "8"],
    "harnesses": [
        ("step_request_more", {"props": ["C02", "C09", "C10", "C14", "C01"], "cost": 9,
                               "what": "one request_more from any Inv-state: window content, position, mark, flags, one read, buffer size bound"}),
        ("step_request", {"props": ["C02", "C09", "C14"], "cost": 3,
                          "what": "request(n): falls short only at end/error, no read when buffered data suffices"}),
        ("step_request_byte_at_offset", {"props": ["C02", "C09", "C14"], "cost": 3,
                                         "what": "request_byte_at_offset(k): returns stream byte, None only at end"}),
        ("step_request_byte", {"props": ["C02"], "cost": 8, "what": "request_byte"}),
        ("step_advance", {"props": ["C02", "C14"], "cost": 2, "what": "advance(n<=valid_len)"}),
        ("step_advance_with_buf", {"props": ["C02", "C14"], "cost": 2, "what": "advance_with_buf returns exactly the bytes passed over"}),
        ("step_advance_unchecked", {"props": ["C02", "C14"], "cost": 2, "what": "advance_unchecked within its contract"}),
        ("step_marks_and_config", {"props": ["C02"], "cost": 2, "what": "set_mark / set_mark_to_position / set_chunk_size / check_io_error / io_error / buf_ptr"}),
        ("step_mark_survives_advance_and_refill", {"props": ["C02", "C08", "C01"], "cost": 9, "what": "mark set, advance, refill (with realign): mark still designates the same offset"}),
        ("panic_advance_past_end", {"props": ["C14"], "cost": 2, "must_fail_with": ["advanced past the current buffer size"],
                                    "what": "advance(n > buffered): memory-safety invariant holds at the point of the documented panic"}),
        ("panic_advance_with_buf_past_end", {"props": ["C14"], "cost": 2, "must_fail_with": ["advanced past the current buffer size"],
                                             "what": "advance_with_buf(n > buffered): invariant at the panic; no slice is handed out"}),
        ("step_request_more_overlong_source", {"props": ["C14"], "cost": 9, "must_fail_with": ["invariant of std::io::Read trait violated"],
                                               "what": "a source claiming more bytes than its slice: rejected by the load-bearing assert before any state is updated"}),
        ("base_from_read", {"props": ["C02"], "cost": 1, "what": "from_read establishes Inv"}),
        ("reach_request_more", {"props": ["C02", "C09", "C10", "C14"], "kind": "reach", "cost": 8, "what": "vacuity twin"}),
    ],
}

_WRITER_COMMON = {
    "package": "flussab",
    "prefix": "deferred_writer::verif_writer::",
    "overlay": [("flussab/src/deferred_writer.rs", "writer", "harness/flussab/writer_step.rs")],
    "params_crates": ["flussab"],
    "timeout": {"quick": 1500, "thorough": 5400},
}
GROUPS["writer_step"] = dict(_WRITER_COMMON, **{
    "name": "writer_step",
    "params": {"quick": {"WCAP": 4, "MAXS": 9}, "thorough": {"WCAP": 6, "MAXS": 19}},
    "flags": ["--default-unwind", "5"],
    "harnesses": [
        ("step_write_all_defer_err_ok_sink", {"cost": 5, "what": "write_all_defer_err(slice of 0..MAXS bytes) from any Inv-state, accept-all sink: fast path, fill+flush+buffer, flush+write-through"}),
        ("step_write_trait_methods_ok_sink", {"cost": 5, "what": "Write::write / Write::write_all return Ok(len)/Ok(())"}),
        ("step_flush_ok_sink", {"cost": 2, "what": "flush / flush_defer_err deliver exactly the buffered bytes once"}),
        ("step_drop_ok_sink", {"cost": 2, "what": "drop flushes"}),
        ("step_buf_write_ptr_ok_sink", {"cost": 2, "props": ["C11", "C14"], "what": "buf_write_ptr(n) non-null only if n bytes fit; advance_unchecked(m<=n)"}),
        ("step_check_io_error_ok_sink", {"cost": 1, "what": "check_io_error without error"}),
        ("step_write_short_and_interrupted_sink", {"cost": 6, "what": "sink with one short write and one Interrupted"}),
        ("step_flush_short_and_interrupted_sink", {"cost": 3, "what": "flush with short write / Interrupted"}),
        ("step_write_failing_sink", {"cost": 6, "what": "sink may fail at any call; error parked or not in the pre-state"}),
        ("step_flush_failing_sink", {"cost": 3, "what": "flush reports the error exactly once"}),
        ("step_check_io_error_failing_sink", {"cost": 1, "what": "check_io_error reports and clears"}),
        ("step_drop_failing_sink", {"cost": 2, "what": "drop with failing sink"}),
        ("reach_write_through", {"kind": "reach", "cost": 5, "what": "vacuity twin"}),
    ],
})
GROUPS["writer_digits"] = dict(_WRITER_COMMON, **{
    "name": "writer_digits",
    "params": {"quick": {"WCAP": 12, "MAXS": 2}, "thorough": {"WCAP": 12, "MAXS": 2}},
    "flags": ["--default-unwind", "7"],
    "harnesses": [
        ("digits_i8", {"cost": 3, "what": "text::ascii_digits::<i8> all values: canonical decimal text"}),
        ("digits_u8", {"cost": 3, "what": "u8"}),
        ("digits_i16", {"cost": 4, "tiers": T, "what": "i16"}),
        ("digits_u16", {"cost": 4, "tiers": T, "what": "u16"}),
        ("digits_i32", {"cost": 8, "tiers": T, "flags": ["--default-unwind", "12"], "what": "i32"}),
        ("digits_u32", {"cost": 8, "tiers": T, "flags": ["--default-unwind", "12"], "what": "u32"}),
    ],
})

PROPERTIES["C11"] = {
    "level": "model_checking",
    "groups": ["writer_step", "writer_digits"],
    "claim": "Bounded model checking (SAT) of one inductive step per operation of the real DeferredWriter from an arbitrary invariant-satisfying state (buffer content and fill level, parked error or not) against nondeterministic sink stubs; a symbolic witness stream position proves in-order, exactly-once delivery for every position at once; integer formatting is checked for all values of the 8/16(/32)-bit types.",
    "level_note": "Buffer capacity is WCAP (the real constant is 16 KiB; the code is capacity-generic, the harness builds the struct with a small capacity); slices up to MAXS >= 2*WCAP+1 bytes; sinks: accept-all, one short write + one Interrupted, failing at an arbitrary call. 64/128-bit itoap formatting is outside (external crate, not finished within caps). Trusted: Kani/CBMC/cadical.",
    "functions": ["DeferredWriter::{write_all_defer_err, write_all_defer_err_cold, flush_defer_err, buf_write_ptr, advance_unchecked, check_io_error, Write::write, Write::write_all, Write::flush, Drop::drop}", "flussab::write::text::{ascii_digits, ascii_digits_cold}", "itoap::{write_to_ptr, write} (as compiled)"],
    "explanation": "Step induction on the real writer: Inv = (base + buf.len() == written, the buffer holds the most recently written bytes, a byte already seen by the sink lies below the buffer, with a never-failing sink every byte below the buffer has been seen). Each operation is run once with arbitrary arguments; the sink stub checks the byte arriving as stream offset W and that it arrives once; with a failing sink: writes return Ok, the error is reported exactly once by the next flush/check_io_error, the sink is not called while an error is parked.",
    "bounds_note": "capacity WCAP, slice length <= MAXS, at most one Interrupted and one short write per operation",
    "outside": ["sink panics (the `panicked` flag)", "64/128-bit integer formatting", "capacities other than WCAP (code is generic in the capacity)"],
    "assumptions": ["Write stub honours the Write contract (accepts 1..=len bytes or fails)"],
}

PROPERTIES["C02"] = {
    "level": "model_checking",
    "claim": "Bounded model checking (SAT) of one inductive step per public operation of the real DeferredReader from an arbitrary invariant-satisfying state: within the bounds every value of buffer content, geometry, chunk size, flags, mark, position and every admissible behaviour of the source is covered, so operation histories of any length are covered by induction. This is the right level because the property quantifies over histories and schedules, which a step invariant reduces to finitely many bounded queries.",
    "level_note": "Assumes the stated representation invariant characterises reachable states (base case from_read is checked); bounds: buffer <= CAP, chunk <= MAXCHUNK, look-ahead <= MAXREQ beyond buffered; request()/request_byte_at_offset() loops are checked against the contract of request_more that step_request_more proves. Trusted: Kani/CBMC/cadical, Kani's Vec/Box models.",
    "groups": ["reader_step"],
    "functions": ["flussab::DeferredReader::{request_more, request, request_cold, request_byte_at_offset(_cold), request_byte, advance, advance_with_buf, advance_unchecked, set_mark, set_mark_to_position, set_chunk_size, check_io_error, io_error, buf, buf_len, buf_ptr, is_complete, is_at_end, position, mark, from_read}"],
    "explanation": "One-step induction on the real DeferredReader: from an arbitrary state satisfying the representation invariant (symbolic buffer, cursor, window, chunk size, flags, mark, arbitrary absolute position) each public operation is run once with arbitrary arguments against a nondeterministic Read stub (short reads, Interrupted, terminal error, EOF), and the invariant plus the operation's post-condition are asserted; CBMC decides them for all values within the bounds. Histories of any length follow by induction over operations.",
    "bounds_note": "pre-state buffer <= CAP bytes, chunk size 1..MAXCHUNK, request look-ahead <= valid_len+MAXREQ, at most 2 Interrupted per read call; absolute offsets < 2^40 (position itself arbitrary usize).",
    "outside": ["chunk sizes above MAXCHUNK and buffers above CAP (+growth) bytes", "allocation failure", "from_buf_reader with a live BufReader (covered by a concrete-schedule harness if it finishes)"],
    "assumptions": ["Read stub returns 1..=min(remaining, slice) bytes, Ok(0) only at the real end, Interrupted at most twice per call, or a terminal error", "representation invariant Inv as stated in DESIGN.md C02"],
}

PROPERTIES["C14"] = {
    "level": "model_checking",
    "groups": ["reader_step", "writer_step"],
    "claim": "Bounded model checking of the real unsafe reader/writer code with CBMC's pointer, bounds and validity checks enabled, from arbitrary invariant-satisfying states (so call histories are covered by induction); the state is additionally checked AT the point where each documented panic diverges, which is what a caller observes after catch_unwind.",
    "level_note": "Panic paths cannot be continued in Kani, so 'after a caught panic' is encoded as 'the memory-safety invariant holds at the panic point' via cfg(kani) hooks injected into the scratch copy; bounds as for C02/C11; AddressSanitizer runs are outside this technique.",
    "functions": ["DeferredReader::{advance, advance_cold, advance_with_buf, request_more (load-bearing assert), buf, buf_ptr, request_byte_at_offset}"],
    "explanation": "Every get_unchecked/raw pointer access in the reader is a CBMC verification condition in the step harnesses; the panic-point harnesses assert pos_in_buf+valid_len <= buf.len() and 'no byte exposed that the source never delivered' where advance()/advance_with_buf() panic and where the Read-contract assert fires for a source that claims more bytes than its slice.",
    "bounds_note": "as C02",
    "outside": ["unwinding through foreign frames", "sanitizer runs"],
    "assumptions": ["as C02"],
}

NOT_APPLICABLE = {
    "C12": "AIG renumbering is one explicit-stack DFS over std HashMaps with no smaller unit; Kani does not finish symbolic execution even for a 1-gate circuit (>15 min, see DESIGN.md section 1 and C12); a MIR executor is out of reach of this task. Not switching technique.",
}
for _pid in ["C01","C03","C04","C05","C06","C07","C08","C09","C10","C11","C13","C14","C15","C16"]:
    NOT_APPLICABLE.setdefault(_pid, "check under construction in this session (see DESIGN.md section 7); not yet claimed")
