"""Registry: harness groups (what is overlaid where, which harnesses, bounds) and properties."""

Q = ("quick",)
T = ("thorough",)
QT = ("quick", "thorough")

GROUPS = {}
PROPERTIES = {}

# --------------------------------------------------------------------------------------------
# real DeferredReader, one-step induction (in-crate; private fields)

GROUPS["reader_step"] = {
    "name": "reader_step",
    "package": "flussab",
    "prefix": "deferred_reader::verif_reader::",
    "overlay": [("flussab/src/deferred_reader.rs", "reader", "harness/flussab/reader_step.rs")],
    "inject": [("flussab/src/deferred_reader.rs", r"pub fn request_more\(&mut self\) -> bool \{\n",
                "        #[cfg(kani)]\n        if unsafe { verif_reader::USE_CONTRACT } {\n            return self.request_more_contract();\n        }\n"),
               ("flussab/src/deferred_reader.rs", r"fn advance_cold\(&self\) -> ! \{\n",
                "        #[cfg(kani)]\n        verif_reader::panic_point(self);\n"),
               ("flussab/src/deferred_reader.rs", r"Ok\(n\) => \{\n(?=(\s*//.*\n)*\s*assert!\(\s*n\b)",
                "                    #[cfg(kani)]\n                    verif_reader::pre_read_assert(self);\n")],
    "params_crates": ["flussab"],
    "params": {
        "quick": {"CAP": 8, "MAXCHUNK": 2, "MAXREQ": 6, "SCAP": 16, "SHRINKCAP": 12},
        "thorough": {"CAP": 12, "MAXCHUNK": 4, "MAXREQ": 9, "SCAP": 26, "SHRINKCAP": 12},
    },
    "timeout": {"quick": 1500, "thorough": 5400},
    "flags_tier": {"quick": ["--default-unwind", "8"], "thorough": ["--default-unwind", "11"]},
    "harnesses": [
        ("step_request_more", {"props": ["C02", "C09", "C10", "C14", "C01", "C04", "C08"], "cost": 9,
                               "what": "one request_more from any Inv-state: window content, position, mark, flags, one read, buffer size bound"}),
        ("step_request_more_shrink_region", {"props": ["C02", "C10", "C14"], "cost": 10, "flags": ["--default-unwind", "14"], "rss_gb": 24,
                                             "what": "request_more in the realign + shrink region with a buffer of up to SHRINKCAP bytes (chunk 1): the live window survives the shrink decision at its boundary cases"}),
        ("step_request", {"props": ["C02", "C09", "C14"], "cost": 3,
                          "what": "request(n): falls short only at end/error, no read when buffered data suffices"}),
        ("step_request_byte_at_offset", {"props": ["C02", "C09", "C14"], "cost": 3,
                                         "what": "request_byte_at_offset(k): returns stream byte, None only at end"}),
        ("step_request_byte", {"props": ["C02"], "cost": 8, "what": "request_byte"}),
        ("step_advance", {"props": ["C02", "C14"], "cost": 2, "what": "advance(n<=valid_len)"}),
        ("step_advance_with_buf", {"props": ["C02", "C14"], "cost": 2, "what": "advance_with_buf returns exactly the bytes passed over"}),
        ("step_advance_unchecked", {"props": ["C02", "C14"], "cost": 2, "what": "advance_unchecked within its contract"}),
        ("step_marks_and_config", {"props": ["C02"], "cost": 2, "what": "set_mark / set_mark_to_position / set_chunk_size / check_io_error / io_error / buf_ptr"}),
        ("step_mark_survives_advance_and_refill", {"props": ["C02", "C08", "C01"], "cost": 9, "what": "mark set, advance, refill (with realign): mark still designates the same offset"}),
        ("panic_advance_past_end", {"props": ["C14"], "cost": 2, "must_fail_with": ["advanced past the current buffer size"],
                                    "what": "advance(n > buffered): memory-safety invariant holds at the point of the documented panic"}),
        ("panic_advance_with_buf_past_end", {"props": ["C14"], "cost": 2, "must_fail_with": ["advanced past the current buffer size"],
                                             "what": "advance_with_buf(n > buffered): invariant at the panic; no slice is handed out"}),
        ("step_request_more_overlong_source", {"props": ["C14"], "cost": 9, "must_fail_with": ["invariant of std::io::Read trait violated"],
                                               "what": "a source claiming more bytes than its slice: rejected by the load-bearing assert before any state is updated"}),
        ("base_from_read", {"props": ["C02"], "cost": 1, "what": "from_read establishes Inv"}),
        ("base_from_buf_reader", {"props": ["C02"], "cost": 8, "flags": ["--default-unwind", "6"], "rss_gb": 20,
                                  "what": "from_buf_reader over a real std BufReader (capacity 2, 0..4 byte stream, any read sizes, any amount pre-buffered and pre-consumed), two refills: the already buffered bytes come first, then the inner source, nothing lost, duplicated or reordered"}),
        ("reach_request_more", {"props": ["C02", "C09", "C10", "C14"], "kind": "reach", "cost": 8, "what": "vacuity twin"}),
    ],
}

_WRITER_COMMON = {
    "package": "flussab",
    "prefix": "deferred_writer::verif_writer::",
    "overlay": [("flussab/src/deferred_writer.rs", "writer", "harness/flussab/writer_step.rs")],
    "params_crates": ["flussab"],
    "timeout": {"quick": 1500, "thorough": 5400},
}
GROUPS["writer_step"] = dict(_WRITER_COMMON, **{
    "name": "writer_step",
    "params": {"quick": {"WCAP": 4, "MAXS": 9}, "thorough": {"WCAP": 6, "MAXS": 19}},
    "flags": ["-Z", "stubbing", "--default-unwind", "5"],
    "harnesses": [
        ("step_write_all_defer_err_ok_sink", {"cost": 5, "what": "write_all_defer_err(slice of 0..MAXS bytes) from any Inv-state, accept-all sink: fast path, fill+flush+buffer, flush+write-through"}),
        ("step_write_trait_methods_ok_sink", {"cost": 5, "what": "Write::write / Write::write_all return Ok(len)/Ok(())"}),
        ("step_flush_ok_sink", {"cost": 2, "what": "flush / flush_defer_err deliver exactly the buffered bytes once"}),
        ("step_drop_ok_sink", {"cost": 2, "what": "drop flushes"}),
        ("step_buf_write_ptr_ok_sink", {"cost": 2, "props": ["C11", "C14"], "what": "buf_write_ptr(n) non-null only if n bytes fit; advance_unchecked(m<=n)"}),
        ("step_check_io_error_ok_sink", {"cost": 1, "what": "check_io_error without error"}),
        ("step_write_short_and_interrupted_sink", {"cost": 6, "what": "sink with one short write and one Interrupted"}),
        ("step_flush_short_and_interrupted_sink", {"cost": 3, "what": "flush with short write / Interrupted"}),
        ("step_write_failing_sink", {"cost": 6, "what": "sink may fail at any call; error parked or not in the pre-state"}),
        ("step_flush_failing_sink", {"cost": 3, "what": "flush reports the error exactly once"}),
        ("step_check_io_error_failing_sink", {"cost": 1, "what": "check_io_error reports and clears"}),
        ("step_drop_failing_sink", {"cost": 2, "what": "drop with failing sink"}),
        ("base_from_write", {"cost": 1, "what": "from_write establishes Inv (empty buffer with capacity, no error, not panicked); first byte + flush delivered exactly once"}),
        ("reach_write_through", {"kind": "reach", "cost": 5, "what": "vacuity twin"}),
    ],
})
GROUPS["writer_digits"] = dict(_WRITER_COMMON, **{
    "name": "writer_digits",
    "params": {"quick": {"WCAP": 12, "MAXS": 2}, "thorough": {"WCAP": 12, "MAXS": 2}},
    "flags": ["-Z", "stubbing", "--default-unwind", "7"],
    "harnesses": [
        ("digits_i8", {"cost": 3, "what": "text::ascii_digits::<i8> all values: canonical decimal text"}),
        ("digits_u8", {"cost": 3, "what": "u8"}),
        ("digits_i16", {"cost": 4, "tiers": T, "what": "i16"}),
        ("digits_u16", {"cost": 4, "tiers": T, "what": "u16"}),
    ],
})

GROUPS["writer_digits_wide"] = dict(_WRITER_COMMON, **{
    "name": "writer_digits_wide",
    "params": {"quick": {"WCAP": 44, "MAXS": 2}, "thorough": {"WCAP": 44, "MAXS": 2}},
    "flags": ["-Z", "stubbing", "--default-unwind", "5"],
    "harnesses": [
        (n, {"cost": 4, "props": ["C11", "C14"], "what": "write::text::ascii_digits::<%s>: the space reserved in the buffer covers the decimal text of EVERY value at every fill level (itoap replaced by its contract: writes exactly the text's length); stream accounting exact on fast and cold path" % n.split("_")[-1]})
        for n in ["digits_reserve_i8", "digits_reserve_u16", "digits_reserve_i32", "digits_reserve_u32", "digits_reserve_i64", "digits_reserve_u64",
                  "digits_reserve_isize", "digits_reserve_usize", "digits_reserve_i128", "digits_reserve_u128"]
    ],
})

# --------------------------------------------------------------------------------------------
# engine R (reader model) + T0 harnesses for flussab::text

_MODEL = {
    "replace": [("flussab/src/deferred_reader.rs", "harness/flussab/reader_model.rs")],
    "append_text": [("flussab/src/lib.rs", "#[cfg(kani)]\npub use deferred_reader::{ModelState, Refill, N as MODEL_N};")],
    "params_crates": ["flussab"],
}

_SPEC_INJECT = {
    "overlay_extra": [("flussab/src/text.rs", "spec", "harness/flussab/text_spec.rs")],
    "inject": [
        ("flussab/src/text.rs", r"pub fn ascii_digits_multi<I>\([^)]*\)[^{]*\{\n\s*#!\[allow\(clippy::or_fun_call\)\]\n",
         "    #[cfg(kani)]\n    if unsafe { verif_spec::USE_SPEC } {\n        return verif_spec::spec_digits(reader, offset);\n    }\n"),
        ("flussab/src/text.rs", r"pub fn signed_ascii_digits_multi<I>\([^)]*\)[^{]*\{\n\s*#!\[allow\(clippy::or_fun_call\)\]\n",
         "    #[cfg(kani)]\n    if unsafe { verif_spec::USE_SPEC } {\n        return verif_spec::spec_signed_digits(reader, offset);\n    }\n"),
    ],
    "append_text": [("flussab/src/lib.rs", "#[cfg(kani)]\npub use deferred_reader::{ModelState, Refill, N as MODEL_N};\n#[cfg(kani)]\npub fn verif_use_spec(on: bool) {\n    unsafe { text::verif_spec_flag(on) }\n}"),
                    ("flussab/src/text.rs", "#[cfg(kani)]\npub unsafe fn verif_spec_flag(on: bool) {\n    verif_spec::USE_SPEC = on;\n}")],
}

def _types(fmt, types, **kw):
    return [(fmt % t, dict(kw, what=kw.get("what", "") + " [" + t + "]")) for t in types]

_ALLT = ["i8", "u8", "i16", "u16", "i32", "u32", "i64", "u64", "isize", "usize", "i128", "u128"]

GROUPS["text_t0"] = dict(_MODEL, **{
    "name": "text_t0",
    "package": "flussab",
    "prefix": "text::verif_text::",
    "overlay": [("flussab/src/text.rs", "text", "harness/flussab/text_t0.rs")],
    "params": {"quick": {"N": 8}, "thorough": {"N": 10}},
    "flags_tier": {"quick": ["--default-unwind", "10"], "thorough": ["--default-unwind", "12"]},
    "timeout": {"quick": 1200, "thorough": 7200},
    "harnesses": (
        [("swar_kernel_all_words", {"props": ["C13", "C01"], "cost": 5, "what": "swar_ascii_digits_u64_le == byte-wise reference for all 2^64 words"})]
        + _types("digits_simple_%s", ["i8", "u8", "i16", "u16"], props=["C13", "C06", "C05"], cost=4, what="ascii_digits vs wide-arithmetic reference")
        + _types("digits_simple_%s", ["i32", "u32", "i64", "u64", "isize", "usize", "i128", "u128"], props=["C13", "C06"], cost=4, tiers=T, what="ascii_digits vs reference")
        + _types("signed_simple_%s", ["i8", "u8", "i16", "u16"], props=["C13", "C06", "C05"], cost=5, what="signed_ascii_digits vs reference (lone minus, exact overflow)")
        + _types("signed_simple_%s", ["i32", "u32", "i64", "u64", "isize", "usize", "i128", "u128"], props=["C13", "C06"], cost=5, tiers=T, what="signed_ascii_digits vs reference")
        + _types("multi_eq_%s", ["u8", "i32", "usize"], props=["C13", "C01", "C09", "C06"], cost=6, what="ascii_digits_multi == ascii_digits for all contents, offsets, buffered amounts, schedules")
        + _types("multi_eq_%s", ["i8", "i16", "u16", "u32", "i64", "u64", "isize", "i128", "u128"], props=["C13", "C01"], cost=6, tiers=T, what="ascii_digits_multi == ascii_digits")
        + _types("smulti_eq_%s", ["i8", "u8", "i16"], props=["C13", "C01", "C09", "C06"], cost=7, what="signed_ascii_digits_multi == signed_ascii_digits")
        + _types("smulti_eq_%s", ["u16", "u32", "u64", "usize", "u128"], props=["C13", "C01"], cost=9, tiers=T, what="signed_ascii_digits_multi == signed_ascii_digits")
        + _types("cont_pos_%s", ["i8", "i64", "u64"], props=["C13", "C06"], cost=3, what="ascii_digits_cont_pos from an arbitrary accumulated value: exact at the overflow boundary")
        + _types("cont_neg_%s", ["i8", "i64", "isize"], props=["C13", "C06"], cost=3, what="ascii_digits_cont_neg from an arbitrary accumulated value")
        + _types("cont_pos_%s", ["u8", "i16", "u16", "i32", "u32", "isize", "usize", "i128", "u128"], props=["C13"], cost=3, tiers=T, what="ascii_digits_cont_pos full width")
        + _types("cont_neg_%s", ["u8", "i16", "u16", "i32", "u32", "u64", "usize", "i128", "u128"], props=["C13"], cost=3, tiers=T, what="ascii_digits_cont_neg full width")
        + [
            ("raw_load_in_bounds_unsigned", {"props": ["C14"], "cost": 3, "what": "8-byte load of ascii_digits_multi stays inside the buffered data (window fills the array)"}),
            ("raw_load_in_bounds_signed", {"props": ["C14"], "cost": 3, "what": "8-byte load of signed_ascii_digits_multi stays inside the buffered data"}),
            ("helper_tabs_or_spaces", {"props": ["C16", "C01", "C07"], "cost": 3, "what": "tabs_or_spaces: maximal run, no consumption, look-ahead bound"}),
            ("helper_newline", {"props": ["C16", "C01", "C07"], "cost": 2, "what": "newline: LF / CRLF / lone CR / CR at end"}),
            ("helper_next_newline", {"props": ["C16", "C01"], "cost": 3, "what": "next_newline: just past next LF or end of input"}),
            ("helper_fixed", {"props": ["C16", "C01"], "cost": 3, "what": "fixed(pattern of 0..4 symbolic bytes): all-or-nothing, stops at first mismatch"}),
            ("line_reader_give_up", {"props": ["C04", "C08", "C05"], "cost": 2, "what": "give_up/give_up_at: parked I/O error wins; line/column arithmetic"}),
            ("line_reader_new_and_line_at_offset", {"props": ["C08"], "cost": 1, "what": "LineReader::new / line_at_offset"}),
            ("reach_text", {"props": ["C13", "C16", "C01"], "kind": "reach", "cost": 3, "what": "vacuity twin"}),
        ]
    ),
})

GROUPS["cnf_token_t0"] = dict(dict(_MODEL, **_SPEC_INJECT), **{
    "name": "cnf_token_t0",
    "package": "flussab-cnf",
    "prefix": "token::verif_token::",
    "overlay": [("flussab-cnf/src/token.rs", "token", "harness/cnf/token_t0.rs")],
    "params": {"quick": {"N": 8}, "thorough": {"N": 9}},
    "flags": ["-Z", "stubbing"],
    "flags_tier": {"quick": ["--default-unwind", "10"], "thorough": ["--default-unwind", "11"]},
    "timeout": {"quick": 1200, "thorough": 5400},
    "harnesses": [
        ("uint_u8", {"props": ["C06", "C07", "C05", "C04", "C09"], "cost": 4, "what": "cnf uint::<u8>: exact value, end-of-word, trailing blanks, overflow -> Err, look-ahead"}),
        ("uint_usize", {"props": ["C06", "C07", "C09", "C10"], "cost": 5, "what": "cnf uint::<usize>"}),
        ("uint_u64", {"props": ["C06"], "cost": 5, "tiers": T, "what": "cnf uint::<u64>"}),
        ("int_i8", {"props": ["C06", "C07", "C05", "C04"], "cost": 5, "what": "cnf int::<i8>: sign, -0, leading zeros, exact overflow"}),
        ("int_isize", {"props": ["C06", "C07", "C09", "C01", "C10"], "cost": 8, "what": "cnf int::<isize> (the literal scanner)"}),
        ("uint_u8_real", {"props": ["C06", "C01"], "cost": 9, "tiers": T, "what": "cnf uint::<u8> over the REAL optimised scanner (no spec stub)"}),
        ("uint_usize_real", {"props": ["C06", "C01"], "cost": 9, "tiers": T, "what": "cnf uint::<usize> over the real optimised scanner"}),
        ("int_i8_real", {"props": ["C06", "C01"], "cost": 9, "tiers": T, "what": "cnf int::<i8> over the real optimised scanner"}),
        ("int_isize_real", {"props": ["C06", "C01"], "cost": 9, "tiers": T, "what": "cnf int::<isize> over the real optimised scanner"}),
        ("braced_uint_u8", {"props": ["C06", "C05"], "cost": 4, "what": "braced_uint::<u8>"}),
        ("end_of_word", {"props": ["C07"], "cost": 1, "what": "is_end_of_word <=> blank, CR, LF or end of input"}),
        ("word_any_pattern", {"props": ["C07", "C09", "C10"], "cost": 3, "what": "word(pattern): pattern + end of word, eats trailing blanks"}),
        ("fixed_any_pattern", {"props": ["C07", "C09"], "cost": 2, "what": "fixed(pattern)"}),
        ("comment_token", {"props": ["C07", "C08", "C04", "C09", "C10"], "cost": 3, "what": "comment: c...LF or c...EOF, then blanks; line accounting"}),
        ("interactive_strict_comment_token", {"props": ["C07", "C08", "C09"], "cost": 3, "what": "solver-log comment line"}),
        ("interactive_skip_line_token", {"props": ["C07", "C08", "C09", "C10"], "cost": 3, "what": "skip unknown line"}),
        ("newline_token", {"props": ["C07", "C08", "C10"], "cost": 2, "what": "newline = LF | CRLF (then blanks), not a lone CR"}),
        ("interactive_newline_token", {"props": ["C09", "C08", "C07"], "cost": 2, "what": "interactive_newline consumes the newline and requests nothing after it"}),
        ("eof_token", {"props": ["C04", "C07"], "cost": 1, "what": "eof succeeds only at the end of a source that did not fail"}),
        ("interactive_end_of_line_token", {"props": ["C09", "C04", "C07", "C08"], "cost": 2, "what": "interactive_end_of_line = newline | clean eof"}),
        ("skip_whitespace_token", {"props": ["C07"], "cost": 1, "what": "skip_whitespace"}),
        ("var_count_i8", {"props": ["C06", "C08", "C04", "C05"], "cost": 4, "what": "var_count::<i8>: accepted iff <= MAX_DIMACS; range error at the token, I/O error wins"}),
        ("var_count_isize", {"props": ["C06"], "cost": 4, "what": "var_count::<isize>"}),
        ("uint_count_u8", {"props": ["C06", "C08", "C05"], "cost": 4, "what": "uint_count::<u8>"}),
        ("clause_group_limit", {"props": ["C06", "C08", "C05"], "cost": 4, "what": "clause_group(limit): accepted iff <= limit"}),
        ("unexpected_total", {"props": ["C05", "C08", "C04"], "cost": 4, "what": "unexpected(): terminates, no panic, location = cursor, I/O error wins"}),
        ("reach_cnf_token", {"kind": "reach", "cost": 4, "what": "vacuity twin"}),
    ],
})

GROUPS["cnf_token_small"] = dict(GROUPS["cnf_token_t0"], **{
    "name": "cnf_token_small",
    "params": {"quick": {"N": 5}, "thorough": {"N": 7}},
    "flags_tier": {"quick": ["--default-unwind", "7"], "thorough": ["--default-unwind", "9"]},
    "harnesses": [
        ("non_terminating_linebreaks_real", {"props": ["C07", "C08"], "cost": 8, "what": "newline then any mix of comment lines, blank lines, blanks (real comment/newline underneath), smaller window"}),
    ],
})

GROUPS["aiger_token_t0"] = dict(dict(_MODEL, **_SPEC_INJECT), **{
    "name": "aiger_token_t0",
    "package": "flussab-aiger",
    "prefix": "token::verif_token::",
    "overlay": [("flussab-aiger/src/token.rs", "token", "harness/aiger/token_t0.rs")],
    "params": {"quick": {"N": 8}, "thorough": {"N": 9}},
    "flags": ["-Z", "stubbing"],
    "flags_tier": {"quick": ["--default-unwind", "10"], "thorough": ["--default-unwind", "11"]},
    "timeout": {"quick": 1200, "thorough": 5400},
    "harnesses": [
        ("space_and_newline_tokens", {"props": ["C09", "C08", "C05"], "cost": 1, "what": "aiger space / newline: one byte, line accounting, no look-ahead past the LF"}),
        ("required_single_byte_tokens", {"props": ["C09", "C08", "C04", "C05"], "cost": 3, "what": "required_space / required_newline / required_newline_or_space incl. error location"}),
        ("fixed_tokens", {"props": ["C05", "C06"], "cost": 2, "what": "fixed / fixed_not_eol"}),
        ("eof_token", {"props": ["C04"], "cost": 1, "what": "eof only at the end of a source that did not fail"}),
        ("uint_u8", {"props": ["C06", "C05", "C04"], "cost": 3, "what": "aiger uint::<u8>: no leading zeros, exact, overflow -> Err"}),
        ("uint_usize", {"props": ["C06", "C09", "C10"], "cost": 3, "what": "aiger uint::<usize>"}),
        ("uint_u8_real", {"props": ["C06", "C01"], "cost": 9, "tiers": T, "what": "aiger uint::<u8> over the real optimised scanner"}),
        ("uint_usize_real", {"props": ["C06", "C01"], "cost": 9, "tiers": T, "what": "aiger uint::<usize> over the real optimised scanner"}),
        ("binary_uint_token", {"props": ["C06", "C05", "C08", "C04", "C09", "C10"], "cost": 5, "what": "binary_uint: 7-bit groups, <= 8 bytes, truncated input, location"}),
        ("delta_code_token", {"props": ["C06", "C05", "C08"], "cost": 5, "what": "delta_code: delta <= code, result code - delta"}),
        ("limited_header_field", {"props": ["C06", "C08", "C04", "C05"], "cost": 6, "what": "header_field(limit): accepted iff well-formed and <= limit; error at the token"}),
        ("limited_lit", {"props": ["C06", "C08", "C04", "C05"], "cost": 6, "what": "lit(limit, assigning): <= limit; even and non-zero when assigning"}),
        ("limited_symbol_index", {"props": ["C06", "C08", "C05"], "cost": 6, "what": "symbol_index(limit)"}),
        ("remaining_line_content_ascii", {"props": ["C09", "C08", "C04", "C05", "C10"], "cost": 6, "what": "remaining_line_content: name = line without LF, only if the LF is there"}),
        ("remaining_file_content_ascii", {"props": ["C04", "C08", "C05", "C01"], "cost": 7, "what": "remaining_file_content: comment accepted iff empty or LF-terminated AND the source did not fail"}),
        ("unexpected_total", {"props": ["C05", "C08", "C04"], "cost": 3, "what": "unexpected()"}),
        ("reach_aiger_token", {"kind": "reach", "cost": 2, "what": "vacuity twin"}),
    ],
})

GROUPS["aiger_token_small"] = dict(GROUPS["aiger_token_t0"], **{
    "name": "aiger_token_small",
    "params": {"quick": {"N": 4}, "thorough": {"N": 5}},
    "flags_tier": {"quick": ["--default-unwind", "6"], "thorough": ["--default-unwind", "7"]},
    "harnesses": [
        ("remaining_line_content_utf8", {"props": ["C05", "C08", "C06"], "cost": 9, "tiers": T, "what": "remaining_line_content with the REAL UTF-8 validation on arbitrary bytes (small window)"}),
    ],
})

GROUPS["btor2_token_t0"] = dict(dict(_MODEL, **_SPEC_INJECT), **{
    "name": "btor2_token_t0",
    "package": "flussab-btor2",
    "prefix": "token::verif_token::",
    "overlay": [("flussab-btor2/src/token.rs", "token", "harness/btor2/token_t0.rs")],
    "params": {"quick": {"N": 8}, "thorough": {"N": 9}},
    "flags": ["-Z", "stubbing"],
    "flags_tier": {"quick": ["--default-unwind", "10"], "thorough": ["--default-unwind", "11"]},
    "timeout": {"quick": 1200, "thorough": 5400},
    "harnesses": [
        ("single_byte_tokens", {"props": ["C09", "C08", "C05"], "cost": 1, "what": "btor2 newline / space / comment_start"}),
        ("skip_whitespace_token", {"props": ["C08", "C05"], "cost": 2, "what": "skip_whitespace: spaces and LFs with line accounting"}),
        ("eof_token", {"props": ["C04"], "cost": 1, "what": "eof only at the end of a source that did not fail"}),
        ("uint_u64", {"props": ["C06", "C05", "C09", "C10"], "cost": 4, "what": "btor2 uint: no leading zeros, exact u64"}),
        ("positive_and_nonnegative_int", {"props": ["C06", "C08", "C05", "C04"], "cost": 5, "what": "positive_int / nonnegative_int and the location of their range error"}),
        ("comment_body_token", {"props": ["C04", "C09", "C08", "C10"], "cost": 3, "what": "comment_body: up to the LF; not handed out as complete when a failing source cut it short"}),
        ("symbol_name_token", {"props": ["C09", "C05", "C10"], "cost": 3, "what": "symbol_name"}),
        ("lowercase_u64_fast_eq_cold", {"props": ["C01", "C09", "C05"], "cost": 6, "what": "BTOR2 keyword scanner: SWAR fast path == cold path == reference, for every buffered amount"}),
        ("lowercase_raw_load_in_bounds", {"props": ["C14"], "cost": 2, "what": "8-byte load of the keyword scanner stays inside the buffered data"}),
        ("required_constants", {"props": ["C06", "C08", "C05"], "cost": 4, "what": "binary / decimal / hex constants"}),
        ("unexpected_total", {"props": ["C05", "C08", "C04"], "cost": 3, "what": "unexpected()"}),
        ("reach_btor2_token", {"kind": "reach", "cost": 5, "what": "vacuity twin"}),
    ],
})

GROUPS["btor2_token_wide"] = dict(GROUPS["btor2_token_t0"], **{
    "name": "btor2_token_wide",
    "params": {"quick": {"N": 12}, "thorough": {"N": 12}},
    "flags_tier": {"quick": ["--default-unwind", "14"], "thorough": ["--default-unwind", "14"]},
    "harnesses": [
        ("lowercase_run_schedule_independent", {"props": ["C01", "C09", "C05"], "cost": 6, "what": "ascii_lowercase: exactly the run of lowercase letters for every buffered amount and schedule"}),
        ("keyword_tokens_consume_run_or_nothing", {"props": ["C05", "C06"], "cost": 9, "tiers": T, "what": "node_token / sort_token consume the keyword or nothing"}),
    ],
})

def _stub_injects(file, specs, modpath="verif_stub"):
    out = []
    for name, args, generics, stubname in specs:
        rx = r"pub fn %s(<[^>]*>)?\([^)]*\)[^{]*\{\n" % name
        call = "%s::%s%s(%s)" % (modpath, stubname or name, generics, args)
        out.append((file, rx, "    #[cfg(kani)]\n    if %s::on() {\n        return %s;\n    }\n" % (modpath, call)))
    return out

_CNF_TOKEN_SPECS = [
    ("skip_whitespace", "input", "", None), ("comment", "input", "", None), ("newline", "input", "", None),
    ("word", "input, fixed", "", None), ("fixed", "input, fixed", "", None),
    ("interactive_strict_comment", "input", "", None), ("interactive_skip_line", "input", "", None),
    ("eof", "input", "", None), ("interactive_end_of_line", "input", "", None),
    ("non_terminating_linebreaks", "input", "", None),
    ("var_count", "input", "::<L>", None), ("uint_count", "input, what", "::<T>", None),
    ("clause_group", "input, limit, hard_limit", "", None),
    ("clause_lits", "input, lits, limit, hard_limit", "::<L>", None),
    ("int", "input", "::<T>", None), ("unexpected", "input, expected", "", None),
    ("exceeds_var_count", "input", "", "exceeds_var_count_stub"),
]

_US_INJECT = "        #[cfg(kani)]\n        if crate::token::verif_stub::on() {\n            return crate::token::verif_stub::any_err();\n        }\n"

GROUPS["cnf_parser_t2"] = dict(_MODEL, **{
    "overlay_extra": [("flussab/src/lib.rs", "q", "harness/flussab/verif_q.rs", "pub")],
    "name": "cnf_parser_t2",
    "package": "flussab-cnf",
    "prefix": "cnf::verif_cnf::",
    "overlay": [("flussab-cnf/src/token.rs", "stub", "harness/cnf/token_stub.rs"),
                ("flussab-cnf/src/cnf.rs", "cnf", "harness/cnf/parser_t2.rs")],
    "inject": _stub_injects("flussab-cnf/src/token.rs", _CNF_TOKEN_SPECS)
              + [("flussab-cnf/src/cnf.rs", r"fn unexpected_statement\(&mut self\) -> ParseError \{\n", _US_INJECT)],
    "params": {"quick": {"N": 2, "QCAP": 4}, "thorough": {"N": 2, "QCAP": 4}},
    "flags": ["--default-unwind", "6"],
    "rss_gb": 16,
    "timeout": {"quick": 1200, "thorough": 3600},
    "harnesses": [
        ("next_clause_i8", {"props": ["C06", "C04", "C09", "C05", "C07"], "cost": 6, "what": "cnf next_clause from any parser state: clause-count gating, clean end only via eof with all clauses read, literals as produced, returns right after the line end"}),
        ("next_clause_isize", {"props": ["C06", "C09"], "cost": 9, "tiers": T, "rss_gb": 24, "what": "cnf next_clause::<isize>"}),
        ("new_i8", {"props": ["C06", "C05", "C07"], "flags": ["--default-unwind", "9"], "cost": 6, "what": "cnf Parser::new: header values, limits installed iff !ignore_header and non-zero"}),
        ("new_isize", {"props": ["C06"], "flags": ["--default-unwind", "9"], "cost": 6, "what": "cnf Parser::new::<isize>"}),
        ("reach_cnf_parser", {"kind": "reach", "cost": 4, "what": "vacuity twin"}),
    ],
})

GROUPS["cnf_clause_lits_t1"] = dict(GROUPS["cnf_parser_t2"], **{
    "name": "cnf_clause_lits_t1",
    "prefix": "token::verif_cl::",
    "overlay": [("flussab-cnf/src/token.rs", "stub", "harness/cnf/token_stub.rs"),
                ("flussab-cnf/src/token.rs", "cl", "harness/cnf/clause_lits_t1.rs")],
    "inject": _stub_injects("flussab-cnf/src/token.rs", [s for s in _CNF_TOKEN_SPECS if s[0] != "clause_lits"]),
    "flags": ["--default-unwind", "7"],
    "harnesses": [
        ("clause_lits_i8", {"props": ["C06", "C05", "C08", "C04", "C07"], "cost": 6, "what": "REAL clause_lits::<i8> over contract stubs for int / line breaks: exactly the literals before the 0, each within +-limit and unchanged by the cast; out-of-range literal rejected; mark set before every number"}),
        ("clause_lits_i32", {"props": ["C06"], "cost": 6, "what": "clause_lits::<i32>"}),
        ("clause_lits_isize", {"props": ["C06", "C08"], "cost": 6, "what": "clause_lits::<isize>"}),
        ("dimacs_cast_i8", {"props": ["C06"], "cost": 1, "what": "Dimacs for i8: from_dimacs/dimacs inverse and injective on [-MAX_DIMACS, MAX_DIMACS], MAX_DIMACS and its negation representable"}),
        ("dimacs_cast_i16", {"props": ["C06"], "cost": 1, "what": "Dimacs for i16"}),
        ("dimacs_cast_i32", {"props": ["C06"], "cost": 1, "what": "Dimacs for i32"}),
        ("dimacs_cast_i64", {"props": ["C06"], "cost": 1, "what": "Dimacs for i64"}),
        ("dimacs_cast_isize", {"props": ["C06"], "cost": 1, "what": "Dimacs for isize"}),
        ("reach_clause_lits", {"kind": "reach", "cost": 5, "what": "vacuity twin"}),
    ],
})

_AIGER_TOKEN_SPECS = [
    ("unexpected", "input, expected", "", None), ("fixed", "input, fixed", "", None),
    ("fixed_not_eol", "input, fixed", "", None), ("space", "input", "", None),
    ("required_space", "input", "", None), ("newline", "input", "", None),
    ("required_newline", "input", "", None), ("required_newline_or_space", "input", "", None),
    ("header_field", "input, name, limit, hard_limit", "", None), ("lit", "input, name, limit, assigning", "", None),
    ("symbol_index", "input, name, limit", "", None), ("delta_code", "input, code, target, reference", "", None),
    ("remaining_line_content", "input", "", None), ("remaining_file_content", "input", "", None),
    ("eof", "input", "", None), ("invalid_initialization", "input", "", None),
]

# T3: ghost token queue between the real writers and the real parser control code
_QUEUE = {
    "overlay_extra": [("flussab/src/lib.rs", "q", "harness/flussab/verif_q.rs", "pub")],
    "inject": [
        ("flussab/src/write/text.rs", r"pub fn ascii_digits<I>\(writer: &mut DeferredWriter, value: I\)\nwhere\n\s*I: Integer,\n\{\n",
         "    #[cfg(kani)]\n    if crate::verif_q::capturing() {\n        return crate::verif_q::push_num(value);\n    }\n"),
        ("flussab/src/deferred_writer.rs", r"pub fn write_all_defer_err\(&mut self, buf: &\[u8\]\) \{\n",
         "        #[cfg(kani)]\n        if crate::verif_q::capturing() {\n            return crate::verif_q::push_bytes(buf);\n        }\n"),
    ],
}

def _aiger_t2(kind, make_parser):
    return dict(_MODEL, **{
        "name": "aiger_%s_t2" % kind,
        "package": "flussab-aiger",
        "prefix": "%s::verif_%s::" % (kind, kind),
        "overlay": [("flussab-aiger/src/token.rs", "stub", "harness/aiger/token_stub.rs"),
                    ("flussab-aiger/src/%s.rs" % kind, kind, "harness/aiger/parser_t2.rs")],
        "overlay_extra": _QUEUE["overlay_extra"],
        "inject": _stub_injects("flussab-aiger/src/token.rs", _AIGER_TOKEN_SPECS),
        "append_text": _MODEL["append_text"] + [("flussab-aiger/src/%s.rs" % kind, make_parser)],
        "params": {"quick": {"N": 2, "QCAP": 4}, "thorough": {"N": 2, "QCAP": 4}},
        "flags": ["--default-unwind", "10"],
        "rss_gb": 16,
        "timeout": {"quick": 1200, "thorough": 3600},
        "harnesses": [
            ("header_parse_u8", {"props": ["C06", "C05", "C03", "C09"], "cost": 5, "what": "%s Header::parse::<u8>: M <= (MAX_CODE-1)/2, I+L+A <= M, field order, which limit applies to which field" % kind}),
            ("header_parse_u64", {"props": ["C06", "C05", "C03"], "cost": 5, "what": "%s Header::parse::<u64>" % kind}),
            ("new_u8", {"props": ["C05", "C06"], "cost": 5, "what": "%s Parser::new::<u8>: no overflow for any header" % kind}),
            ("new_u64", {"props": ["C05", "C06"], "cost": 5, "what": "%s Parser::new::<u64>: no overflow for any header" % kind}),
            ("next_symbol_u8", {"props": ["C06", "C05", "C03", "C09"], "cost": 6, "what": "%s next_symbol: index limit is the section's own count - 1; no underflow" % kind}),
            ("next_symbol_u64", {"props": ["C05"], "cost": 6, "tiers": T, "what": "%s next_symbol::<u64>" % kind}),
            ("reach_aiger_parser", {"kind": "reach", "cost": 4, "what": "vacuity twin"}),
        ],
    })

GROUPS["aiger_ascii_t2"] = _aiger_t2("ascii", """#[cfg(kani)]
fn verif_make_parser<L: Lit>(reader: LineReader<'static>, header: Header) -> Parser<'static, L> {
    Parser { reader, max_lit: header.max_var_index * 2 + 1, header, _lit_builder: std::marker::PhantomData }
}""")
GROUPS["aiger_binary_t2"] = _aiger_t2("binary", """#[cfg(kani)]
fn verif_make_parser<L: Lit>(reader: LineReader<'static>, header: Header) -> Parser<'static, L> {
    Parser { reader, max_lit: header.max_var_index * 2 + 1, code: (header.input_count + 1).wrapping_mul(2), header, _lit_builder: std::marker::PhantomData }
}""")

_SMALL_WRITER = ("flussab/src/deferred_writer.rs", """#[cfg(kani)]
impl<'a> DeferredWriter<'a> {
    /// harness-only constructor: same struct, small buffer capacity (the code is capacity-generic)
    pub fn verif_with_capacity(write: impl Write + 'a, cap: usize) -> Self {
        DeferredWriter { write: Box::new(write), buf: Vec::with_capacity(cap), io_error: None, panicked: false }
    }
}""")

_MAKE_BINARY = """#[cfg(kani)]
fn verif_make_parser<L: Lit>(reader: LineReader<'static>, header: Header) -> Parser<'static, L> {
    Parser { reader, max_lit: header.max_var_index * 2 + 1, code: (header.input_count + 1).wrapping_mul(2), header, _lit_builder: std::marker::PhantomData }
}"""

def _aiger_t3(kind, make_parser, harnesses):
    g = _aiger_t2(kind, make_parser)
    g.update({
        "name": "aiger_%s_t3" % kind,
        "prefix": "%s::verif_%s3::" % (kind, kind[0]),
        "overlay": [("flussab-aiger/src/token.rs", "stub", "harness/aiger/token_stub.rs"),
                    ("flussab-aiger/src/%s.rs" % kind, "%s3" % kind[0], "harness/aiger/%s_t3.rs" % kind)],
        "overlay_extra": _QUEUE["overlay_extra"],
        "inject": g["inject"] + _QUEUE["inject"] + [("flussab-aiger/src/lib.rs", r"\A", "#![cfg_attr(kani, feature(allocator_api))]\n"),
                                                   ("flussab-aiger/src/%s.rs" % kind, r"\n\s*let justice_property_count = self\.header\.justice_property_count;\n",
                                                    "        #[cfg(kani)]\n        if crate::token::verif_stub::cut_after_prealloc() {\n            return Err(crate::token::verif_stub::any_err());\n        }\n")],
        "append_text": g["append_text"] + [_SMALL_WRITER],
        "params": {"quick": {"N": 2, "QCAP": 28}, "thorough": {"N": 2, "QCAP": 28}},
        "flags": ["-Z", "stubbing", "--default-unwind", "12"],
        "harnesses": harnesses + [
            ("parse_prealloc_bound", {"props": ["C05"], "cost": 4, "solver_only": ["allocation bound"], "flags": ["--default-unwind", "2"],
                                      "what": "%s Parser::parse: every reserve/with_capacity is <= 2^16 elements for EVERY header (counts up to usize::MAX): declared counts cannot drive allocation" % kind}),
        ],
    })
    return g

_SEC = {"props": ["C06", "C05", "C09"], "cost": 4}
_RT = {"props": ["C03"], "cost": 5}
GROUPS["aiger_ascii_t3"] = _aiger_t3("ascii", GROUPS["aiger_ascii_t2"]["append_text"][-1][1], [
    ("sec_next_input", dict(_SEC, what="ascii next_input from any section state: None iff the declared count is used up (no input touched), else lit(max_lit, assigning) + newline, handed out right after the line")),
    ("sec_next_output", dict(_SEC, what="ascii next_output")),
    ("sec_next_bad", dict(_SEC, what="ascii next_bad_state_property")),
    ("sec_next_constraint", dict(_SEC, what="ascii next_invariant_constraint")),
    ("sec_next_local_fairness", dict(_SEC, what="ascii next_justice_property_local_fairness_constraint")),
    ("sec_next_fairness", dict(_SEC, what="ascii next_fairness_constraint")),
    ("sec_next_latch", dict(_SEC, what="ascii next_latch: state (assigning) / next / optional reset 0, 1 or own literal; anything else rejected")),
    ("sec_next_and_gate", dict(_SEC, what="ascii next_and_gate: output (assigning), two inputs, field order")),
    ("sec_next_justice_size", dict(_SEC, what="ascii next_justice_property_size: running total cannot wrap")),
    ("tr_inputs_to_latches", dict(_SEC, what="section transition: remaining items skipped, next section expects the header's count")),
    ("tr_latches_to_outputs", dict(_SEC, what="section transition latches -> outputs")),
    ("tr_outputs_to_bad", dict(_SEC, what="section transition outputs -> bad")),
    ("tr_bad_to_constraints", dict(_SEC, what="section transition bad -> constraints")),
    ("tr_constraints_to_justice", dict(_SEC, what="section transition constraints -> justice sizes")),
    ("tr_local_fairness_to_fairness", dict(_SEC, what="section transition local fairness -> fairness")),
    ("tr_fairness_to_ands", dict(_SEC, what="section transition fairness -> and gates")),
    ("tr_parser_to_inputs_and_justice_sizes", dict(_SEC, what="Parser::inputs and justice sizes -> local fairness constraints (sum of the sizes)")),
    ("tr_ands_to_symbols", dict(_SEC, what="and gates -> symbols")),
    ("rt_header", dict(_RT, what="ascii write_header -> Header::parse is the identity for every valid header (trailing zero fields dropped / 5..9 fields accepted)")),
    ("rt_latch", dict(_RT, what="ascii write_latch -> next_latch identity: three reset forms")),
    ("rt_and_gate", dict(_RT, what="ascii write_and_gate -> next_and_gate identity")),
    ("rt_lit_lines_and_count", dict(_RT, what="ascii write_lit -> next_input / next_output, write_count -> next_justice_property_size")),
    ("rt_symbol", dict(_RT, what="ascii write_symbol -> next_symbol identity for every section and index")),
    ("rt_comment", dict(_RT, flags=["--default-unwind", "5"], what="ascii write_comment -> comment()")),
    ("reach_ascii_t3", {"kind": "reach", "cost": 3, "what": "vacuity twin"}),
])

GROUPS["aiger_ascii_doc"] = dict(GROUPS["aiger_ascii_t3"], **{
    "name": "aiger_ascii_doc",
    "params": {"quick": {"N": 2, "QCAP": 64}, "thorough": {"N": 2, "QCAP": 64}},
    "params": {"quick": {"N": 2, "QCAP": 80}, "thorough": {"N": 2, "QCAP": 80}},
    "flags": ["-Z", "stubbing", "--default-unwind", "12"],
    "harnesses": [
        ("w_ordered_document_order", {"props": ["C03"], "cost": 5, "what": "ascii write_ordered_aig: implicit numbering made explicit (inputs 2,4,.., latch and gate literals consecutive), trailing zero header fields dropped"}),
        ("w_document_order", {"props": ["C03"], "cost": 5, "what": "ascii write_aig emits header, inputs, latches, outputs, bad, constraints, justice sizes, justice literals, fairness, and gates, symbols, comment in the order and shape of the AIGER grammar (symbolic literals, concrete shape)"}),
    ],
})

GROUPS["aiger_binary_t3"] = _aiger_t3("binary", _MAKE_BINARY, [
    ("sec_next_output", dict(_SEC, what="binary next_output from any section state")),
    ("sec_next_bad", dict(_SEC, what="binary next_bad_state_property")),
    ("sec_next_constraint", dict(_SEC, what="binary next_invariant_constraint")),
    ("sec_next_local_fairness", dict(_SEC, what="binary next_justice_property_local_fairness_constraint")),
    ("sec_next_fairness", dict(_SEC, what="binary next_fairness_constraint")),
    ("sec_next_latch", dict(_SEC, what="binary next_latch: next state, optional reset 0 / 1 / the latch's implicit literal; implicit numbering advances by 2")),
    ("sec_next_and_gate", dict(_SEC, what="binary next_and_gate: first delta relative to the gate's implicit literal, second relative to the first input; output > in0 >= in1")),
    ("sec_next_justice_size", dict(_SEC, what="binary next_justice_property_size")),
    ("tr_latches_to_outputs", dict(_SEC, what="section transition latches -> outputs")),
    ("tr_outputs_to_bad", dict(_SEC, what="section transition outputs -> bad")),
    ("tr_bad_to_constraints", dict(_SEC, what="section transition bad -> constraints")),
    ("tr_constraints_to_justice", dict(_SEC, what="section transition constraints -> justice sizes")),
    ("tr_local_fairness_to_fairness", dict(_SEC, what="section transition local fairness -> fairness")),
    ("tr_fairness_to_ands", dict(_SEC, what="section transition fairness -> and gates")),
    ("tr_parser_to_latches_and_justice_sizes", dict(_SEC, what="Parser::latches and justice sizes -> local fairness constraints")),
    ("tr_ands_to_symbols", dict(_SEC, what="and gates -> symbols, implicit numbering")),
    ("rt_header", dict(_RT, what="binary write_header -> Parser::new identity for every valid u8 header; writer and parser agree on the first latch/gate literal")),
    ("rt_header_u64", dict(_RT, props=["C03", "C05"], what="binary header round trip with 64-bit literals (no overflow in writer or parser)")),
    ("rt_latch", dict(_RT, what="binary write_latch -> next_latch identity, implicit literal in step")),
    ("rt_and_gate", dict(_RT, what="binary write_and_gate -> next_and_gate: sorted inputs, delta coding relative to the implicit literal")),
    ("rt_lit_lines_and_count", dict(_RT, what="binary write_lit -> next_output, write_count -> next_justice_property_size")),
    ("rt_symbol", dict(_RT, what="binary write_symbol -> next_symbol")),
    ("rt_comment", dict(_RT, flags=["--default-unwind", "5"], what="binary write_comment -> comment()")),
    ("reach_binary_t3", {"kind": "reach", "cost": 3, "what": "vacuity twin"}),
])
GROUPS["aiger_binary_doc"] = dict(GROUPS["aiger_binary_t3"], **{
    "name": "aiger_binary_doc",
    "params": {"quick": {"N": 2, "QCAP": 80}, "thorough": {"N": 2, "QCAP": 80}},
    "harnesses": [
        ("w_ordered_document_order", {"props": ["C03"], "cost": 5, "what": "binary write_ordered_aig emits header, latches, outputs, bad, constraints, justice sizes, justice literals, fairness, delta-coded and gates, symbols, comment in the order and shape of the AIGER grammar"}),
    ],
})
GROUPS["aiger_binary_doc"]["inject"] = GROUPS["aiger_binary_t3"]["inject"] = GROUPS["aiger_binary_t3"]["inject"] + [
    ("flussab-aiger/src/binary.rs", r"fn write_binary_uint\(&mut self, mut code: usize\) \{\n",
     "        #[cfg(kani)]\n        if flussab::verif_q::capturing() {\n            return flussab::verif_q::push_bin(code as u64);\n        }\n"),
]

GROUPS["aiger_binary_rt"] = dict(dict(_MODEL, **_SPEC_INJECT), **{
    "name": "aiger_binary_rt",
    "package": "flussab-aiger",
    "prefix": "binary::verif_rt::",
    "overlay": [("flussab-aiger/src/binary.rs", "rt", "harness/aiger/binary_rt.rs")],
    "append_text": _SPEC_INJECT["append_text"] + [_SMALL_WRITER, ("flussab-aiger/src/binary.rs", _MAKE_BINARY), ("flussab-aiger/src/lib.rs", "#[cfg(kani)]\n#[allow(dead_code)]\nmod verif_params;")],
    "params": {"quick": {"N": 4, "RT_BITS": 21}, "thorough": {"N": 8, "RT_BITS": 55}},
    "params_crates": ["flussab", "flussab-aiger"],
    "subst": {"RT_BITS": "crate::verif_params::RT_BITS"},
    "flags": ["-Z", "stubbing"],
    "flags_tier": {"quick": ["--default-unwind", "6"], "thorough": ["--default-unwind", "10"]},
    "timeout": {"quick": 1500, "thorough": 5400},
    "rss_gb": 20,
    "harnesses": [
        ("rt_binary_uint", {"cost": 8, "what": "binary write_binary_uint -> delta_code/binary_uint for every value < 2^RT_BITS"}),
        ("rt_and_gate", {"cost": 8, "tiers": [], "what": "binary write_and_gate -> next_and_gate: every code <= 2^RT_BITS and inputs <= code"}),
        ("rt_latch", {"cost": 8, "tiers": [], "what": "binary write_latch -> next_latch: three reset forms, u8 literals"}),
        ("reach_rt", {"kind": "reach", "cost": 2, "what": "vacuity twin"}),
    ],
})

GROUPS["btor2_rt"] = dict(_MODEL, **{
    "name": "btor2_rt",
    "package": "flussab-btor2",
    "prefix": "btor2::verif_rt::",
    "overlay": [("flussab-btor2/src/btor2.rs", "rt", "harness/btor2/btor2_rt.rs")],
    "params": {"quick": {"N": 12}, "thorough": {"N": 12}},
    "flags": ["-Z", "stubbing", "--default-unwind", "42"],
    "timeout": {"quick": 1500, "thorough": 3600},
    "rss_gb": 20,
    "harnesses": [
        ("rt_binary_op_names", {"cost": 8, "what": "BTOR2: every BinaryOp::name() is a keyword read back as the same operator"}),
        ("rt_other_keywords", {"cost": 5, "what": "BTOR2: unary / ext / slice / ternary operator names"}),
        ("rt_constants", {"cost": 5, "what": "BTOR2: constants accepted by BinaryConst/DecimalConst/HexConst::try_from are read back entirely by the constant tokens"}),
        ("reach_btor2_rt", {"kind": "reach", "cost": 1, "what": "vacuity twin"}),
    ],
})

_BTOR2_TOKEN_SPECS = [
    ("unexpected", "input, expected", "", None), ("skip_whitespace", "input", "", None),
    ("newline", "input", "", None), ("space", "input", "", None), ("comment_start", "input", "", None),
    ("required_space", "input", "", None), ("node_id", "input", "", None),
    ("required_node_id", "input", "", None), ("required_sort_id", "input", "", None),
    ("required_positive_int", "input, what", "", None), ("required_nonnegative_int", "input, what", "", None),
    ("required_hex_constant", "input", "", "required_constant"),
    ("required_decimal_constant", "input", "", "required_constant"),
    ("required_binary_constant", "input", "", "required_constant"),
    ("node_token", "input", "", None), ("sort_token", "input", "", None),
    ("symbol_name", "input", "", None), ("comment_body", "input", "", None), ("eof", "input", "", None),
]

GROUPS["btor2_parser_t2"] = dict(_MODEL, **{
    "name": "btor2_parser_t2",
    "package": "flussab-btor2",
    "prefix": "parser::verif_parser::",
    "overlay": [("flussab-btor2/src/token.rs", "stub", "harness/btor2/token_stub.rs"),
                ("flussab-btor2/src/parser.rs", "parser", "harness/btor2/parser_t2.rs")],
    "inject": _stub_injects("flussab-btor2/src/token.rs", _BTOR2_TOKEN_SPECS),
    "params": {"quick": {"N": 2}, "thorough": {"N": 2}},
    "flags": ["--default-unwind", "5"],
    "rss_gb": 24,
    "timeout": {"quick": 1500, "thorough": 3600},
    "harnesses": [
        ("next_line_justice", {"props": ["C03", "C04", "C05", "C09", "C06"], "cost": 9, "what": "btor2 next_line, justice lines, from any parser state (stale buffers): the conditions are exactly this line's ids, as many as declared; clean end only via eof; handed out right after the line"}),
        ("next_line_other", {"props": ["C04", "C05", "C09"], "cost": 9, "what": "btor2 next_line, one representative keyword per dispatch arm"}),
        ("reach_btor2_parser", {"kind": "reach", "cost": 5, "what": "vacuity twin"}),
    ],
})

# BTOR2 T3 probe (NOT part of any check): real Line::write_into -> ghost queue -> real next_line over
# script-mode stubs (harness/btor2/token_script.rs, rt_t3.rs). Even a comment line does not get
# through symbolic execution (3-6 GB and growing after 4 minutes per harness, ten harnesses exhaust
# the machine); kept so that the measurement can be repeated. BTOR2 line structure stays outside C03.
PROBES = globals().get("PROBES", {})
PROBES["btor2_t3"] = dict(_MODEL, **{
    "name": "btor2_t3",
    "package": "flussab-btor2",
    "prefix": "parser::verif_t3::",
    "overlay": [("flussab-btor2/src/token.rs", "script", "harness/btor2/token_script.rs"),
                ("flussab-btor2/src/parser.rs", "t3", "harness/btor2/rt_t3.rs")],
    "overlay_extra": _QUEUE["overlay_extra"],
    "inject": _stub_injects("flussab-btor2/src/token.rs", _BTOR2_TOKEN_SPECS, modpath="verif_script") + _QUEUE["inject"],
    "append_text": _MODEL["append_text"] + [_SMALL_WRITER],
    "params": {"quick": {"N": 2, "QCAP": 64}, "thorough": {"N": 2, "QCAP": 64}},
    "flags": ["--default-unwind", "14"],
    "rss_gb": 20,
    "timeout": {"quick": 1500, "thorough": 3000},
    "harnesses": [
        ("rt_comment_line", {"props": ["C03"], "cost": 3, "what": "btor2 Line::Comment write_into -> next_line identity"}),
        ("rt_sort", {"props": ["C03"], "cost": 4, "what": "btor2 sort lines (bitvec width, array domain/codomain) write_into -> next_line identity, any u64 ids, optional symbol/comment"}),
        ("rt_assignment", {"props": ["C03"], "cost": 4, "what": "btor2 init/next lines: field order sort, state, value"}),
        ("rt_output", {"props": ["C03"], "cost": 4, "what": "btor2 output/bad/constraint/fair lines"}),
        ("rt_justice", {"props": ["C03"], "cost": 5, "what": "btor2 justice lines with 1..2 conditions from a parser state with stale buffers"}),
        ("rt_const", {"props": ["C03"], "cost": 5, "what": "btor2 const/constd/consth (four candidate texts) and zero/one/ones lines; constant text delivered through the parser-owned buffer"}),
        ("rt_input_state", {"props": ["C03"], "cost": 4, "what": "btor2 input/state lines"}),
        ("rt_unary", {"props": ["C03"], "cost": 5, "what": "btor2 not / uext / sext / slice lines: every u64 index, order upper then lower"}),
        ("rt_binary_ternary", {"props": ["C03"], "cost": 5, "what": "btor2 binary (add, concat) and ternary (ite, write) lines: operand order"}),
        ("reach_btor2_t3", {"kind": "reach", "cost": 4, "what": "vacuity twin"}),
    ],
})

def _cnf_family_t2(kind):
    g = dict(GROUPS["cnf_parser_t2"])
    g.update({
        "name": "%s_parser_t2" % kind,
        "prefix": "%s::verif_%s::" % (kind, kind),
        "overlay": [("flussab-cnf/src/token.rs", "stub", "harness/cnf/token_stub.rs"),
                    ("flussab-cnf/src/%s.rs" % kind, kind, "harness/cnf/parser_t2_%s.rs" % kind)],
        "inject": _stub_injects("flussab-cnf/src/token.rs", _CNF_TOKEN_SPECS)
                  + [("flussab-cnf/src/%s.rs" % kind, r"fn unexpected_statement\(&mut self\) -> ParseError \{\n", _US_INJECT)],
        "harnesses": [
            ("next_clause_i8", {"props": ["C06", "C04", "C09", "C05", "C07"], "cost": 7, "rss_gb": 20, "flags": ["--default-unwind", "7"], "what": "%s next_clause from any parser state: gating by the declared clause count, clean end only via eof, prefix value and literals as produced, returns right after the line end" % kind}),
            ("new_i8", {"props": ["C06", "C05"], "flags": ["--default-unwind", "10"], "cost": 6, "what": "%s Parser::new: header values and limits" % kind}),
            ("reach_%s_parser" % kind, {"kind": "reach", "tiers": T, "cost": 6, "rss_gb": 20, "flags": ["--default-unwind", "7"], "what": "vacuity twin"}),
        ],
    })
    return g

GROUPS["solver_log_t2"] = dict(GROUPS["cnf_parser_t2"], **{
    "name": "solver_log_t2",
    "prefix": "sat_solver_log::verif_log::",
    "overlay": [("flussab-cnf/src/token.rs", "stub", "harness/cnf/token_stub.rs"),
                ("flussab-cnf/src/sat_solver_log.rs", "log", "harness/cnf/solver_log_t2.rs")],
    # the error branch of parse_log builds its message inline (vec!/join/push_str), which exhausts
    # CBMC like cnf's unexpected_statement: in harness mode it returns the stub error right away
    "inject": _stub_injects("flussab-cnf/src/token.rs", _CNF_TOKEN_SPECS)
              + [("flussab-cnf/src/sat_solver_log.rs", r"\} else \{\n(?=\s*let mut expected = vec!\[\"comment line)",
                  "            #[cfg(kani)]\n            if crate::token::verif_stub::on() {\n                return Err(crate::token::verif_stub::any_err());\n            }\n")],
    "flags": ["--default-unwind", "2"],
    "rss_gb": 20,
    "timeout": {"quick": 1000, "thorough": 3600},
    "harnesses": [
        ("parse_log_i8", {"props": ["C04", "C05"], "cost": 3, "what": "parse_log dispatcher at the end of the input (no further token succeeds): a log is complete only through the eof token of a healthy source; a failed source gives the I/O error, also when unknown lines are ignored"}),
    ],
})

GROUPS["wcnf_parser_t2"] = _cnf_family_t2("wcnf")
GROUPS["gcnf_parser_t2"] = _cnf_family_t2("gcnf")

def _cnf_t3(kind):
    t2 = GROUPS["cnf_parser_t2" if kind == "cnf" else "%s_parser_t2" % kind]
    t2file = "harness/cnf/parser_t2.rs" if kind == "cnf" else "harness/cnf/parser_t2_%s.rs" % kind
    g = dict(t2)
    g.update({
        "name": "%s_t3" % kind,
        "prefix": "%s::verif_%s3::" % (kind, kind),
        "overlay": [("flussab-cnf/src/token.rs", "stub", "harness/cnf/token_stub.rs"),
                    ("flussab-cnf/src/%s.rs" % kind, kind, t2file),
                    ("flussab-cnf/src/%s.rs" % kind, "%s3" % kind, "harness/cnf/rt_t3_%s.rs" % kind)],
        "overlay_extra": _QUEUE["overlay_extra"],
        # REAL clause_lits (not stubbed); everything below it scripted
        "inject": [i for i in t2["inject"] if "clause_lits" not in i[2]] + _QUEUE["inject"],
        "append_text": t2["append_text"] + [_SMALL_WRITER],
        "params": {"quick": {"N": 2, "QCAP": 16, "MAXLITS": 2 if kind == "cnf" else 1}, "thorough": {"N": 2, "QCAP": 16, "MAXLITS": 2 if kind in ("cnf", "gcnf") else 1}},
        "flags": ["--default-unwind", "4"],
        "rss_gb": 20,
        "timeout": {"quick": 1500, "thorough": 3000},
        "harnesses": [
            ("rt_clause", {"props": ["C03"], "cost": 6, "what": "%s write_clause -> next_clause (real clause_lits) is the identity for every clause of <= MAXLITS i8 literals: separators, terminating 0, exact consumption" % kind}),
        ],
    })
    return g

for _k in ("cnf", "wcnf", "gcnf"):
    GROUPS["%s_t3" % _k] = _cnf_t3(_k)

# C12 probe (NOT part of any check; C12 is not applicable): renumber_aig on every 1-input/1-gate graph
# with the hash maps replaced by an association-list model: symex 600 s, then out of memory at
# 24 GB in propositional reduction. Kept so that the measurement can be repeated.
GROUPS["aig_c12"] = {
    "name": "aig_c12",
    "package": "flussab-aiger",
    "prefix": "aig::verif_c12::",
    "overlay": [("flussab-aiger/src/aig.rs", "c12", "harness/aiger/aig_c12.rs")],
    "overlay_extra": [("flussab-aiger/src/aig.rs", "map", "harness/aiger/model_map.rs")],
    "subst_src": [("flussab-aiger/src/aig.rs", r"use std::\{borrow::Cow, collections::hash_map, hash::Hash\};", "use std::{borrow::Cow, hash::Hash};\nuse verif_map::hash_map;"),
                  ("flussab-aiger/src/aig.rs", r"use zwohash::HashMap;", "use verif_map::HashMap;")],
    "flags": ["--default-unwind", "12"],
    "rss_gb": 24,
    "timeout": {"quick": 1500, "thorough": 3600},
    "harnesses": [
        ("renumber_one_gate", {"cost": 9, "what": "probe"}),
        ("renumber_one_gate_undefined", {"cost": 9, "what": "probe"}),
    ],
}

# second C12 probe (NOT part of any check): gate-free graphs (2 inputs, 1 latch, 1 output, 1 bad):
# symex 620 s, then out of memory at 24 GB as well: the cost is in the Vec/iterator plumbing of
# renumber_aig with symbolic map keys, not only in the DFS.
GROUPS["aig_c12_gatefree"] = dict(GROUPS["aig_c12"], **{
    "name": "aig_c12_gatefree",
    "prefix": "aig::verif_c12g::",
    "overlay": [("flussab-aiger/src/aig.rs", "c12g", "harness/aiger/aig_c12_gatefree.rs")],
    "flags": ["--default-unwind", "8"],
    "harnesses": [
        ("renumber_gate_free", {"cost": 8, "what": "probe"}),
    ],
})

GROUPS["parser_c15"] = {
    "name": "parser_c15",
    "package": "flussab",
    "prefix": "parser::verif_parser::",
    "overlay": [("flussab/src/parser.rs", "parser", "harness/flussab/parser_c15.rs")],
    "flags": ["--default-unwind", "3"],
    "timeout": {"quick": 600, "thorough": 600},
    "harnesses": [
        ("c15_or_parse", {"what": "or_parse: alternative runs iff Fallthrough"}),
        ("c15_or_always_parse", {"what": "or_always_parse"}),
        ("c15_or_give_up", {"what": "or_give_up: Fallthrough -> supplied error"}),
        ("c15_optional_matches_from", {"what": "optional / matches / From<Result>"}),
        ("c15_and_then", {"what": "and_then: continuation iff success; failure committed"}),
        ("c15_and_also", {"what": "and_also"}),
        ("c15_and_do_map_map_err_err_into", {"what": "and_do / map / map_err / err_into touch only their case"}),
        ("c15_result_ext", {"what": "ResultExt::{err_into, and_also, and_do}"}),
        ("reach_c15", {"kind": "reach", "what": "vacuity twin"}),
    ],
}

PROPERTIES["C15"] = {
    "level": "model_checking",
    "groups": ["parser_c15"],
    "claim": "SAT-based model checking of every combinator of the real Parsed type with a symbolic input case, symbolic payloads and symbolic closure results (closures count their invocations): the finite domain at the u8 instantiation is covered completely, so for this instantiation the claim is unbounded.",
    "level_note": "Instantiation T=E=u8 (u16/u32 targets for map/map_err/err_into); other instantiations differ only by monomorphisation. Trusted: Kani/CBMC/cadical.",
    "functions": ["flussab::Parsed::{err_into, or_give_up, optional, matches, or_parse, or_always_parse, and_then, and_also, and_do, map, map_err}", "From<Result> for Parsed", "ResultExt::{err_into, and_also, and_do}"],
    "explanation": "Each harness asserts the specification table of one combinator and that the closure ran exactly once when the table says so and never otherwise.",
    "bounds_note": "none beyond the u8 instantiation (finite domain, complete)",
    "outside": ["other type instantiations"],
    "assumptions": [],
}

GROUPS["text_t0_n8"] = dict(GROUPS["text_t0"], **{
    "name": "text_t0_n8",
    "params": {"quick": {"N": 8}, "thorough": {"N": 8}},
    "flags_tier": {"quick": ["--default-unwind", "10"], "thorough": ["--default-unwind", "10"]},
    "timeout": {"quick": 1200, "thorough": 7200},
    "harnesses": _types("smulti_eq_%s", ["i32", "isize", "i64", "i128"], props=["C13", "C01"], cost=10, tiers=T, what="signed_ascii_digits_multi == signed_ascii_digits (8-byte window: the 10-byte query does not finish in 90 min)"),
})

PROPERTIES["C13"] = {
    "level": "model_checking",
    "groups": ["text_t0", "text_t0_n8"],
    "claim": "SAT-based bounded model checking of the real scanners in flussab::text: the 8-byte kernel for all 2^64 words; simple scanners against an independent wide-arithmetic reference for every window content, length, cursor, offset and buffered amount; optimised == simple for every content and every amount of buffered data; continuation helpers from an arbitrary accumulated value (full-width overflow boundary for every integer type).",
    "level_note": "Window of N bytes (8 quick / 12 thorough), offsets 0..2. The scanners run on the reader model R whose soundness w.r.t. the real reader is the C02 check. Full-width overflow of 32/64/128-bit types in the *simple* scanners is covered through the continuation helpers (same accumulation code shape) and the generic source being identical across instantiations, not by a 20/40-digit window.",
    "functions": ["flussab::text::{ascii_digits, signed_ascii_digits, ascii_digits_multi, signed_ascii_digits_multi, ascii_digits_multi_cold, signed_ascii_digits_multi_cold, ascii_digits_cont_pos, ascii_digits_cont_neg, swar_ascii_digits_u64_le}"],
    "explanation": "Each harness runs the real function on a symbolic window and compares value, overflow verdict and returned offset with a reference written in the harness (u128 accumulation / checked arithmetic); the amount of buffered data and every refill size are solver variables, which selects fast or cold path.",
    "bounds_note": "N-byte window, offset <= 2; absolute position base < usize::MAX/2",
    "outside": ["digit runs longer than N bytes in the simple scanners for 32/64/128-bit types (see level_note)"],
    "assumptions": ["reader model R over-approximates the real reader (C02)"],
}

PROPERTIES["C16"] = {
    "level": "model_checking",
    "groups": ["text_t0"],
    "claim": "SAT-based bounded model checking of tabs_or_spaces, newline, next_newline and fixed on a fully symbolic window, start offset and (for fixed) pattern, with every refill schedule: returned offset equals the documented pattern length, nothing is consumed, and the ghost high-water mark of requested offsets never exceeds the deciding byte.",
    "level_note": "Window N bytes, start offsets 0..3, patterns of 0..4 symbolic bytes; look-ahead is measured on the reader model's ghost counter, which C02/C09 tie to real reads (a request for offset k causes reads only until byte k is buffered).",
    "functions": ["flussab::text::{tabs_or_spaces, newline, next_newline, fixed}"],
    "explanation": "Reference scanners are plain loops over the window; look-ahead bound: hw <= start + index of deciding byte + 1.",
    "bounds_note": "N-byte window; offsets <= 3; pattern length <= 4",
    "outside": ["inputs longer than the window (the functions are memoryless per byte)"],
    "assumptions": ["reader model R over-approximates the real reader (C02)"],
}

PROPERTIES["C11"] = {
    "level": "model_checking",
    "groups": ["writer_step", "writer_digits", "writer_digits_wide"],
    "claim": "Bounded model checking (SAT) of one inductive step per operation of the real DeferredWriter from an arbitrary invariant-satisfying state (buffer content and fill level, parked error or not) against nondeterministic sink stubs; a symbolic witness stream position proves in-order, exactly-once delivery for every position at once; integer formatting is checked for all values of the 8- and 16-bit types.",
    "level_note": "Buffer capacity is WCAP (the real constant is 16 KiB; the code is capacity-generic, the harness builds the struct with a small capacity); slices up to MAXS >= 2*WCAP+1 bytes; sinks: accept-all, one short write + one Interrupted, failing at an arbitrary call. 32/64/128-bit formatting is outside: itoap (external crate) uses SSE2 intrinsics there (simd_cast), which Kani cannot encode. Trusted: Kani/CBMC/cadical.",
    "functions": ["DeferredWriter::{write_all_defer_err, write_all_defer_err_cold, flush_defer_err, buf_write_ptr, advance_unchecked, check_io_error, Write::write, Write::write_all, Write::flush, Drop::drop}", "flussab::write::text::{ascii_digits, ascii_digits_cold}", "itoap::{write_to_ptr, write} (as compiled)"],
    "explanation": "Step induction on the real writer: Inv = (base + buf.len() == written, the buffer holds the most recently written bytes, a byte already seen by the sink lies below the buffer, with a never-failing sink every byte below the buffer has been seen). Each operation is run once with arbitrary arguments; the sink stub checks the byte arriving as stream offset W and that it arrives once; with a failing sink: writes return Ok, the error is reported exactly once by the next flush/check_io_error, the sink is not called while an error is parked.",
    "bounds_note": "capacity WCAP, slice length <= MAXS, at most one Interrupted and one short write per operation",
    "outside": ["sink panics (the `panicked` flag)", "digit CONTENT of 32/64/128-bit integers (itoap SIMD path, not encodable by Kani; their length/reservation/accounting is covered against itoap's contract)", "capacities other than WCAP (code is generic in the capacity)"],
    "assumptions": ["Write stub honours the Write contract (accepts 1..=len bytes or fails)", "itoap::write_to_ptr / itoap::write produce exactly the canonical decimal text (checked for 8/16-bit types by digits_*; assumed for wider types)"],
}

PROPERTIES["C02"] = {
    "level": "model_checking",
    "claim": "Bounded model checking (SAT) of one inductive step per public operation of the real DeferredReader from an arbitrary invariant-satisfying state: within the bounds every value of buffer content, geometry, chunk size, flags, mark, position and every admissible behaviour of the source is covered, so operation histories of any length are covered by induction. This is the right level because the property quantifies over histories and schedules, which a step invariant reduces to finitely many bounded queries.",
    "level_note": "Assumes the stated representation invariant characterises reachable states (base case from_read is checked); bounds: buffer <= CAP, chunk <= MAXCHUNK, look-ahead <= MAXREQ beyond buffered; request()/request_byte_at_offset() loops are checked against the contract of request_more that step_request_more proves. Trusted: Kani/CBMC/cadical, Kani's Vec/Box models.",
    "groups": ["reader_step"],
    "functions": ["flussab::DeferredReader::{request_more, request, request_cold, request_byte_at_offset(_cold), request_byte, advance, advance_with_buf, advance_unchecked, set_mark, set_mark_to_position, set_chunk_size, check_io_error, io_error, buf, buf_len, buf_ptr, is_complete, is_at_end, position, mark, from_read}"],
    "explanation": "One-step induction on the real DeferredReader: from an arbitrary state satisfying the representation invariant (symbolic buffer, cursor, window, chunk size, flags, mark, arbitrary absolute position) each public operation is run once with arbitrary arguments against a nondeterministic Read stub (short reads, Interrupted, terminal error, EOF), and the invariant plus the operation's post-condition are asserted; CBMC decides them for all values within the bounds. Histories of any length follow by induction over operations.",
    "bounds_note": "pre-state buffer <= CAP bytes, chunk size 1..MAXCHUNK, request look-ahead <= valid_len+MAXREQ, at most 2 Interrupted per read call; absolute offsets < 2^40 (position itself arbitrary usize).",
    "outside": ["chunk sizes above MAXCHUNK and buffers above CAP (+growth) bytes", "allocation failure", "from_buf_reader with a live BufReader (covered by a concrete-schedule harness if it finishes)"],
    "assumptions": ["Read stub returns 1..=min(remaining, slice) bytes, Ok(0) only at the real end, Interrupted at most twice per call, or a terminal error", "representation invariant Inv as stated in DESIGN.md C02"],
}

PROPERTIES["C14"] = {
    "level": "model_checking",
    "groups": ["reader_step", "writer_step", "text_t0", "btor2_token_t0", "writer_digits_wide"],
    "claim": "Bounded model checking of the real unsafe reader/writer code with CBMC's pointer, bounds and validity checks enabled, from arbitrary invariant-satisfying states (so call histories are covered by induction); the state is additionally checked AT the point where each documented panic diverges, which is what a caller observes after catch_unwind.",
    "level_note": "Panic paths cannot be continued in Kani, so 'after a caught panic' is encoded as 'the memory-safety invariant holds at the panic point' via cfg(kani) hooks injected into the scratch copy; bounds as for C02/C11; AddressSanitizer runs are outside this technique.",
    "functions": ["DeferredReader::{advance, advance_cold, advance_with_buf, request_more (load-bearing assert), buf, buf_ptr, request_byte_at_offset}"],
    "explanation": "Every get_unchecked/raw pointer access in the reader is a CBMC verification condition in the step harnesses; the panic-point harnesses assert pos_in_buf+valid_len <= buf.len() and 'no byte exposed that the source never delivered' where advance()/advance_with_buf() panic and where the Read-contract assert fires for a source that claims more bytes than its slice.",
    "bounds_note": "as C02",
    "outside": ["unwinding through foreign frames", "sanitizer runs"],
    "assumptions": ["as C02"],
}

PROPERTIES["C07"] = {
    "level": "other",
    "groups": ["cnf_token_t0", "cnf_token_small", "text_t0", "cnf_parser_t2", "wcnf_parser_t2", "gcnf_parser_t2", "cnf_clause_lits_t1"],
    "claim": "Layout independence is decided as a set of token-level lemmas, each a SAT-based bounded model check of the real tokenizer function on a fully symbolic window: every token consumes itself plus the maximal run of blanks, its value ignores leading zeros and '-0', newline = LF|CRLF, comments and blank lines are skipped as units, end of word = blank/CR/LF/end. The step from the lemmas to whole documents is a paper induction over the token sequence (parsers are sequential and only see the input through these functions).",
    "level_note": "Window N bytes per token; document-level composition is by induction, not by a solver run (whole-parser symbolic execution is out of reach, DESIGN.md section 1). Statement loops of the parsers are covered by the T2 harnesses where present.",
    "functions": ["flussab_cnf::token::{is_end_of_word, word, fixed, uint, int, braced_uint, comment, interactive_strict_comment, interactive_skip_line, newline, interactive_newline, eof, interactive_end_of_line, skip_whitespace, non_terminating_linebreaks}", "flussab::text::{tabs_or_spaces, newline}"],
    "explanation": "Each lemma harness compares the real function with a reference walk over the same window (value, bytes consumed, line accounting) for every content, buffered amount and refill schedule.",
    "bounds_note": "N-byte window per token",
    "outside": ["document-level induction (paper)", "tokens longer than N bytes"],
    "assumptions": ["reader model R over-approximates the real reader (C02)"],
}

PROPERTIES["C06"] = {
    "level": "model_checking",
    "groups": ["cnf_token_t0", "aiger_token_t0", "aiger_token_small", "btor2_token_t0", "btor2_token_wide", "text_t0", "cnf_parser_t2", "aiger_ascii_t2", "aiger_binary_t2", "wcnf_parser_t2", "gcnf_parser_t2", "cnf_clause_lits_t1", "aiger_ascii_t3", "aiger_binary_t3"],
    "claim": "SAT-based bounded model checking of the real number/limit tokenizers on a fully symbolic window against an independent wide-arithmetic reference: a token is accepted iff it is a representable number word within the stated limit, and the returned number equals the decimal number written; T1/T2 harnesses (where present) decide clause-count gating and limit installation from symbolic parser states.",
    "level_note": "Token-level (window N bytes). The optimised digit scanners are replaced by their specification in the quick tier (justified by C13, which proves the real scanners meet it) and run for real in the thorough tier. Message formatting and UTF-8 validation of message text are stubbed (outside the claim).",
    "functions": ["flussab_cnf::token::{uint, int, braced_uint, var_count, uint_count, clause_group}", "flussab_cnf::cnf::Parser::{new, parse_header, next_clause}", "flussab_aiger::token::{uint, binary_uint, delta_code, header_field, lit, symbol_index}", "flussab_aiger::{ascii,binary}::{Header::parse, Parser::new, ParseSymbols::next_symbol}", "flussab_btor2::token::{uint, positive_int, nonnegative_int, required_*_constant}", "flussab::text::{ascii_digits, signed_ascii_digits}"],
    "explanation": "Each harness runs the real token function and compares acceptance, value and consumed bytes with a reference reading of the same window in u128 arithmetic; limits are symbolic.",
    "bounds_note": "N-byte window",
    "outside": ["error message text", "numbers longer than N bytes at token level (full-width overflow is C13's continuation harnesses)"],
    "assumptions": ["reader model R over-approximates the real reader (C02)", "digit-scanner specification (C13)"],
}

_COMPOSED_NOTE = "Decided compositionally: every link is a SAT-based bounded model check of real code (reader steps on the real DeferredReader; tokenizers on the reader model R whose soundness is the C02 check; parser control logic over contract stubs that the tokenizer harnesses justify); the composition of the links into whole documents is an induction over operations/tokens written down in DESIGN.md, not a solver run. Whole-parser symbolic execution is out of reach (DESIGN.md section 1)."

PROPERTIES["C01"] = {
    "level": "other",
    # every tokenizer harness runs with nondeterministic refills against a reference on the whole
    # window, so each of them is a schedule-independence check of its token function
    "all_harnesses": ["cnf_token_t0", "aiger_token_t0", "btor2_token_t0"],
    "groups": ["reader_step", "text_t0", "btor2_token_t0", "btor2_token_wide", "aiger_token_t0", "cnf_token_t0"],
    "audits": ["observation_sites"],
    "claim": "Schedule independence by composition: (1) the real reader exposes exactly the stream for every read schedule, chunk size and Interrupted pattern (C02 step harnesses incl. mark rebase); (2) a syntactic audit regenerated on every run lists every place where parser-side code observes the AMOUNT of buffered data; (3) for each such place a SAT-based harness proves the result is the same for every buffered amount and refill schedule (optimised == simple digit scanners, BTOR2 keyword scanner fast == cold == reference, AIGER comment section); every other tokenizer harness also runs with nondeterministic refills.",
    "level_note": _COMPOSED_NOTE + " Error message text is outside.",
    "functions": ["DeferredReader::{request_more, request, request_byte_at_offset, set_mark, mark}", "flussab::text::{ascii_digits_multi, signed_ascii_digits_multi, swar_ascii_digits_u64_le}", "flussab_btor2::token::{ascii_lowercase_u64, ascii_lowercase_u64_cold, ascii_lowercase}", "flussab_aiger::token::remaining_file_content"],
    "explanation": "See claim; the reader model's refill sizes are solver variables, so one harness covers every partition of the input into read results.",
    "bounds_note": "as C02, C13; token windows N bytes",
    "outside": ["document-level induction (paper)", "error message text"],
    "assumptions": ["parsers touch the input only through the DeferredReader API (enforced by Rust privacy)"],
}

PROPERTIES["C04"] = {
    "level": "other",
    "groups": ["reader_step", "text_t0", "cnf_token_t0", "aiger_token_t0", "btor2_token_t0", "cnf_parser_t2", "btor2_parser_t2", "wcnf_parser_t2", "gcnf_parser_t2", "cnf_clause_lits_t1"],
    "claim": "I/O-error reporting by composition: (1) reader step with a terminal error: the delivered prefix is exposed as complete input, the error is parked once, no further reads; (2) LineReader::give_up*: a parked I/O error always wins over a syntax error; (3) every tokenizer harness runs with a possibly failing source and asserts that a parked error is never lost or invented, that every eof token succeeds only if the source did not fail, and that the end-of-input acceptors that bypass eof (AIGER comment section, BTOR2 comment body) do not hand out a value cut short by the failure; (4) T2: a clean end is reached only through the eof token.",
    "level_note": _COMPOSED_NOTE,
    "functions": ["DeferredReader::request_more", "LineReader::{give_up, give_up_at}", "{cnf,aiger,btor2}::token::eof", "flussab_aiger::token::{remaining_line_content, remaining_file_content}", "flussab_btor2::token::comment_body", "cnf::Parser::next_clause"],
    "explanation": "The reader model has a `fault` flag: the delivered prefix ends with a parked error instead of EOF; `check_error_not_lost` is asserted after every token function.",
    "bounds_note": "fault offset = any window length <= N",
    "outside": ["document-level induction (paper)", "T2 for wcnf/gcnf/solver log/AIGER sections/BTOR2 next_line (token-level only)"],
    "assumptions": ["reader model R (C02)"],
}

PROPERTIES["C05"] = {
    "level": "model_checking",
    # panic-freedom and progress are checked by every harness of the tokenizer groups
    "all_harnesses": ["cnf_token_t0", "aiger_token_t0", "btor2_token_t0"],
    "groups": ["text_t0", "cnf_token_t0", "aiger_token_t0", "aiger_token_small", "btor2_token_t0", "btor2_token_wide", "cnf_parser_t2", "aiger_ascii_t2", "aiger_binary_t2", "btor2_parser_t2", "wcnf_parser_t2", "gcnf_parser_t2", "cnf_clause_lits_t1", "aiger_ascii_t3", "aiger_binary_t3"],
    "claim": "Panic/overflow/termination freedom per unit: every harness of the tokenizer and parser-control tiers is checked by CBMC with Rust's checked semantics (arithmetic overflow, slice bounds, unwrap/expect, debug assertions are verification conditions) and with unwinding assertions (every scanner loop exits within the window), from symbolic LineReader/parser states, so error-location arithmetic (position - line_start, count - 1, (I+1)*2, limit -= count) is covered for all values.",
    "level_note": "Absence of overflow in the checked build implies the unchecked build computes the same values. Memory clause: AIGER Parser::parse's header-driven pre-allocation is decided with allocation-bound stubs for Vec::reserve/with_capacity (<= 2^16 elements for every header); allocations driven by counts in the BODY of an AIGER file and growth by push are outside (symbolic allocation sizes exhaust CBMC). Stack depth: no recursion in the parsers (not checked by the solver). T2 coverage: cnf/wcnf/gcnf next_clause/new, clause_lits, AIGER Header::parse/Parser::new/sections/transitions/next_symbol, BTOR2 next_line, solver-log dispatcher end; AIGER parse() as a whole is out of reach.",
    "functions": ["all token functions of the three format crates", "flussab::text::*", "cnf::Parser::{new,next_clause}", "aiger::{ascii,binary}::{Header::parse, Parser::new, next_symbol}"],
    "explanation": "Kani's default checks in every harness; dedicated assertions for line/column arithmetic.",
    "bounds_note": "token windows N bytes; parser states fully symbolic within their invariant",
    "outside": ["allocation bounds / heap exhaustion", "stack depth", "inputs longer than the window except through inductive pre-states"],
    "assumptions": ["reader model R (C02)", "token contracts for T2"],
}

PROPERTIES["C08"] = {
    "level": "other",
    "groups": ["reader_step", "text_t0", "cnf_token_t0", "cnf_token_small", "aiger_token_t0", "aiger_token_small", "btor2_token_t0", "cnf_clause_lits_t1"],
    "claim": "Error locations by composition: (1) LineReader invariant (line >= 1, line_start <= position) is preserved by every token function and `line` grows by exactly the number of LF consumed with line_start just after the last one (SAT-checked per function on a symbolic window); (2) every error-producing token function reports line == current line and column == offset of the offending token - line_start + 1 (range errors via the mark, unexpected-token errors at the cursor), with a symbolic absolute base so large offsets are covered; (3) the reader keeps the mark at the same absolute offset across refills/realign (C02).",
    "level_note": _COMPOSED_NOTE + " The single-token corruption catalogue of the property is represented by the error branches of the token functions.",
    "functions": ["LineReader::{line_at_offset, give_up, give_up_at}", "all error-producing token functions of cnf/aiger/btor2", "DeferredReader::{set_mark, mark, request_more}"],
    "explanation": "check_line_tracking / check_loc_at in the harness prelude.",
    "bounds_note": "window N bytes; base position < usize::MAX/2",
    "outside": ["document-level induction (paper)"],
    "assumptions": ["reader model R (C02)"],
}

PROPERTIES["C09"] = {
    "level": "other",
    "groups": ["reader_step", "text_t0", "cnf_token_t0", "aiger_token_t0", "btor2_token_t0", "btor2_token_wide", "cnf_parser_t2", "aiger_ascii_t2", "aiger_binary_t2", "btor2_parser_t2", "wcnf_parser_t2", "gcnf_parser_t2", "aiger_ascii_t3", "aiger_binary_t3"],
    "claim": "No read past the completing line, by composition: (1) reader: exactly one successful read per refill, none when buffered data suffices or after end/error (C02 step harnesses on the real reader); (2) tokenizers: a ghost high-water mark of requested offsets proves that line-terminating tokens request nothing beyond the LF and every other token at most one byte beyond itself (fast paths read only buffered bytes); (3) T2: item-returning parser functions return right after the terminating token.",
    "level_note": _COMPOSED_NOTE,
    "functions": ["DeferredReader::{request_more, request, request_byte_at_offset}", "line-terminating tokens of cnf/aiger/btor2", "cnf::Parser::next_clause", "aiger Header::parse / next_symbol"],
    "explanation": "m_hw ghost counter in the reader model; CALLS_AFTER_TERMINATOR ghost in the token stubs.",
    "bounds_note": "as C02; window N",
    "outside": ["document-level induction (paper)", "T2 for the remaining section readers and BTOR2 next_line"],
    "assumptions": ["reader model R (C02)"],
}

PROPERTIES["C10"] = {
    "level": "model_checking",
    "groups": ["reader_step"],
    "claim": "Two links, both SAT-based bounded model checks of real code. (1) Reader (the anchored mechanism): one inductive step of the real request_more from an arbitrary state: the buffer never grows beyond max(old size, cursor' + window + chunk), realign happens iff the cursor is more than two chunks into the buffer (then the cursor returns to 0), shrink at least halves an oversized buffer, no other operation changes the buffer size; by induction the buffer is bounded by the largest look-ahead plus a constant number of chunks, independent of the bytes processed. (2) Largest look-ahead: the tokenizers that scan unbounded items (numbers, words, comments, names, line ends with their blanks) request at most one byte beyond the item itself and consume it at once (ghost high-water mark of requested offsets), so the look-ahead the reader has to hold is bounded by the largest single item, not by what follows it.",
    "level_note": "Parser-owned buffers (lit_buf, node_buf, ...) are covered only through the T2 harnesses that start from stale buffers (contents = exactly this item); real heap measurement is outside the solver's reach; Vec's amortised growth is trusted.",
    "functions": ["DeferredReader::request_more", "advance*", "set_*", "cnf::token::{uint, int, word, comment, newline, interactive_skip_line}", "aiger::token::{uint, binary_uint, remaining_line_content}", "btor2::token::{uint, comment_body, symbol_name}"],
    "explanation": "Post-conditions on buf.len() in step_request_more / step_request_more_shrink_region and the cursor-movement harnesses; check_lookahead on the reader model's ghost counter in the token harnesses.",
    "bounds_note": "as C02; token windows N bytes",
    "outside": ["parser-owned buffers beyond 'reset per item'", "heap measurement"],
    "assumptions": ["as C02", "reader model R (C02) for the token link"],
}

PROPERTIES["C03"] = {
    "level": "other",
    "groups": ["aiger_binary_rt", "btor2_rt", "writer_digits", "aiger_ascii_t2", "aiger_binary_t2", "btor2_parser_t2"],
    "claim": "Round trip decided by composition, each link a SAT-based bounded model check of real code. (T3) Token-level round trips: the REAL writer functions fill a ghost token queue (numbers, literal bytes, 7-bit coded numbers) and the REAL parser control code reads it back through script-mode token stubs; parsed value == written value and exact consumption for: AIGER ascii and binary headers (trailing zero fields), latches (three reset forms, implicit numbering), and gates (field order; binary: sorted inputs, delta coding against the implicit literal), literal/count lines, symbols (every section), comment; DIMACS cnf/wcnf/gcnf write_clause -> next_clause with the real clause_lits; AIGER writers against the format grammar (section order, two-pass justice encoding). (a) binary AIGER 7-bit coding: write_binary_uint -> delta_code/binary_uint identity for every value < 2^RT_BITS; (b) BTOR2: every operator name the writer emits is the keyword the parser maps back to the same operator; every constant constructible through the validating TryFrom constructors is read back entirely; (c) decimal numbers: canonical text (C11 digits) and exact number tokens (C06); (d) AIGER headers/symbols: the parser's limits do not reject what the writer can produce.",
    "level_note": "PARTIAL. Token level, not byte level: byte-level writer+parser queries exhaust CBMC's memory, so the faithfulness of each token function on the rendered text is taken from its own T0 harness (C06/C07) and from canonical integer formatting (C11). Not covered by a solver query: DIMACS write_header (writeln! formatting), BTOR2 Line::write_into line structure, whole documents (write_aig -> parse did not finish), names/comments other than three fixed candidates, and parse o write o parse beyond token level.",
    "functions": ["flussab_aiger::{ascii,binary}::Writer::{write_header, write_lit, write_latch, write_count, write_and_gate, write_symbol, write_comment, write_aig, write_ordered_aig, write_binary_uint}", "flussab_aiger::{ascii,binary}::{Header::parse, Parser::new, next_input, next_latch, next_output, next_justice_property_size, next_and_gate, next_symbol, comment}", "flussab_cnf::{cnf,wcnf,gcnf}::{write_clause, Parser::next_clause}", "flussab_cnf::token::clause_lits", "flussab_aiger::token::{delta_code, binary_uint}", "flussab_btor2::btor2::{BinaryOp,UnaryOp,TernaryOp}::name", "flussab_btor2::token::{node_token, required_*_constant}", "flussab_btor2::btor2::{BinaryConst,DecimalConst,HexConst}::try_from", "flussab::write::text::ascii_digits"],
    "explanation": "T3: ghost token queue (harness/flussab/verif_q.rs) between the real writer and the real parser control code; streams in which two tokens would be read as one by the real maximal-munch scanners fail the harness (AMBIG), as does a queue that is not consumed exactly.",
    "bounds_note": "u8 literals (u64 for the binary header), clauses of <= 2 (cnf) / <= 1 (wcnf, gcnf quick) literals, three candidate names, values < 2^RT_BITS (21 quick / 55 thorough) for the 7-bit coding; constants of <= 3 ASCII bytes",
    "outside": ["DIMACS headers (writeln!)", "BTOR2 line structure", "whole documents", "arbitrary names/comments", "digit content of 32/64/128-bit integers (itoap)"],
    "assumptions": ["reader model R (C02)", "token contracts (T0 harnesses of C06/C07)", "canonical decimal text (C11)"],
}

NOT_APPLICABLE = {
    "C12": "AIG renumbering is one explicit-stack DFS over hash maps with no smaller unit that carries the property (function preservation, order, cycle detection are properties of the whole traversal). Measured: with std/zwohash HashMap Kani does not finish symbolic execution even for a 1-gate circuit (>15 min); with the maps replaced by an association-list model (harness/aiger/model_map.rs, aig_c12.rs) the 1-input/1-gate instance takes 600 s of symbolic execution and then runs out of memory at 24 GB; a path-wise MIR executor is not installed. Not switching technique (DESIGN.md sections 1, 4, 7).",
}

# A harness tagged with a property always runs in that property's check: derive the group lists
# from the tags, so that a group cannot be forgotten.
for _gname, _g in GROUPS.items():
    for _n, _spec in _g["harnesses"]:
        for _pid in _spec.get("props", []):
            if _pid in PROPERTIES and _gname not in PROPERTIES[_pid]["groups"]:
                PROPERTIES[_pid]["groups"].append(_gname)
