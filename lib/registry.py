"""Registry: harness groups (what is overlaid where, which harnesses, bounds) and properties."""

Q = ("quick",)
T = ("thorough",)
QT = ("quick", "thorough")

GROUPS = {}
PROPERTIES = {}

# --------------------------------------------------------------------------------------------
# real DeferredReader, one-step induction (in-crate; private fields)

GROUPS["reader_step"] = {
    "name": "reader_step",
    "package": "flussab",
    "prefix": "deferred_reader::verif_reader::",
    "overlay": [("flussab/src/deferred_reader.rs", "reader", "harness/flussab/reader_step.rs")],
    "inject": [("flussab/src/deferred_reader.rs", r"pub fn request_more\(&mut self\) -> bool \{\n",
                "        #[cfg(kani)]\n        if unsafe { verif_reader::USE_CONTRACT } {\n            return self.request_more_contract();\n        }\n")],
    "params_crates": ["flussab"],
    "params": {
        "quick": {"CAP": 6, "MAXCHUNK": 2, "MAXREQ": 3, "SCAP": 12},
        "thorough": {"CAP": 10, "MAXCHUNK": 4, "MAXREQ": 5, "SCAP": 20},
    },
    "timeout": {"quick": 1500, "thorough": 5400},
    "flags": ["--default-unwind", "8"],
    "harnesses": [
        ("step_request_more", {"props": ["C02", "C09", "C10", "C14", "C01"], "cost": 9,
                               "what": "one request_more from any Inv-state: window content, position, mark, flags, one read, buffer size bound"}),
        ("step_request", {"props": ["C02", "C09", "C14"], "cost": 3,
                          "what": "request(n): falls short only at end/error, no read when buffered data suffices"}),
        ("step_request_byte_at_offset", {"props": ["C02", "C09", "C14"], "cost": 3,
                                         "what": "request_byte_at_offset(k): returns stream byte, None only at end"}),
        ("step_request_byte", {"props": ["C02"], "cost": 8, "what": "request_byte"}),
        ("step_advance", {"props": ["C02", "C14"], "cost": 2, "what": "advance(n<=valid_len)"}),
        ("step_advance_with_buf", {"props": ["C02", "C14"], "cost": 2, "what": "advance_with_buf returns exactly the bytes passed over"}),
        ("step_advance_unchecked", {"props": ["C02", "C14"], "cost": 2, "what": "advance_unchecked within its contract"}),
        ("step_marks_and_config", {"props": ["C02"], "cost": 2, "what": "set_mark / set_mark_to_position / set_chunk_size / check_io_error / io_error / buf_ptr"}),
        ("step_mark_survives_advance_and_refill", {"props": ["C02", "C08", "C01"], "cost": 9, "what": "mark set, advance, refill (with realign): mark still designates the same offset"}),
        ("base_from_read", {"props": ["C02"], "cost": 1, "what": "from_read establishes Inv"}),
        ("reach_request_more", {"props": ["C02", "C09", "C10", "C14"], "kind": "reach", "cost": 8, "what": "vacuity twin"}),
    ],
}

PROPERTIES["C02"] = {
    "level": "model_checking",
    "claim": "Bounded model checking (SAT) of one inductive step per public operation of the real DeferredReader from an arbitrary invariant-satisfying state: within the bounds every value of buffer content, geometry, chunk size, flags, mark, position and every admissible behaviour of the source is covered, so operation histories of any length are covered by induction. This is the right level because the property quantifies over histories and schedules, which a step invariant reduces to finitely many bounded queries.",
    "level_note": "Assumes the stated representation invariant characterises reachable states (base case from_read is checked); bounds: buffer <= CAP, chunk <= MAXCHUNK, look-ahead <= MAXREQ beyond buffered; request()/request_byte_at_offset() loops are checked against the contract of request_more that step_request_more proves. Trusted: Kani/CBMC/cadical, Kani's Vec/Box models.",
    "groups": ["reader_step"],
    "functions": ["flussab::DeferredReader::{request_more, request, request_cold, request_byte_at_offset(_cold), request_byte, advance, advance_with_buf, advance_unchecked, set_mark, set_mark_to_position, set_chunk_size, check_io_error, io_error, buf, buf_len, buf_ptr, is_complete, is_at_end, position, mark, from_read}"],
    "explanation": "One-step induction on the real DeferredReader: from an arbitrary state satisfying the representation invariant (symbolic buffer, cursor, window, chunk size, flags, mark, arbitrary absolute position) each public operation is run once with arbitrary arguments against a nondeterministic Read stub (short reads, Interrupted, terminal error, EOF), and the invariant plus the operation's post-condition are asserted; CBMC decides them for all values within the bounds. Histories of any length follow by induction over operations.",
    "bounds_note": "pre-state buffer <= CAP bytes, chunk size 1..MAXCHUNK, request look-ahead <= valid_len+MAXREQ, at most 2 Interrupted per read call; absolute offsets < 2^40 (position itself arbitrary usize).",
    "outside": ["chunk sizes above MAXCHUNK and buffers above CAP (+growth) bytes", "allocation failure", "from_buf_reader with a live BufReader (covered by a concrete-schedule harness if it finishes)"],
    "assumptions": ["Read stub returns 1..=min(remaining, slice) bytes, Ok(0) only at the real end, Interrupted at most twice per call, or a terminal error", "representation invariant Inv as stated in DESIGN.md C02"],
}


NOT_APPLICABLE = {
    "C12": "AIG renumbering is one explicit-stack DFS over std HashMaps with no smaller unit; Kani does not finish symbolic execution even for a 1-gate circuit (>15 min, see DESIGN.md section 1 and C12); a MIR executor is out of reach of this task. Not switching technique.",
}
for _pid in ["C01","C03","C04","C05","C06","C07","C08","C09","C10","C11","C13","C14","C15","C16"]:
    NOT_APPLICABLE.setdefault(_pid, "check under construction in this session (see DESIGN.md section 7); not yet claimed")
