#!/bin/bash
# Runs the quick (or $1) command of every claimed property on /repo and prints one line each.
tier=${1:-quick}
shift
props=${@:-C15 C16 C13 C11 C14 C10 C02 C01 C08 C07 C06 C04 C09 C03 C05}
cd /verif
mkdir -p /tmp/runall
for p in $props; do
  t0=$(date +%s)
  ./verif check $p --tier $tier > /tmp/runall/$p.$tier.log 2>&1
  rc=$?
  echo "$p exit=$rc $(( $(date +%s) - t0 ))s $(grep -cE '^(VIOLATION|INCONCLUSIVE)' /tmp/runall/$p.$tier.log) alarms"
done
