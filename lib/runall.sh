#!/bin/bash
# Runs the quick (or $1) command of every claimed property on /repo and prints one line each.
tier=${1:-quick}
cd /verif
mkdir -p /tmp/runall
for p in $(python3 -c "import json;print(' '.join(c['property_id'] for c in json.load(open('MANIFEST.json'))['checks']))"); do
  t0=$(date +%s)
  ./verif check $p --tier $tier > /tmp/runall/$p.$tier.log 2>&1
  rc=$?
  echo "$p exit=$rc $(( $(date +%s) - t0 ))s $(grep -cE '^(VIOLATION|INCONCLUSIVE)' /tmp/runall/$p.$tier.log) alarms"
done
