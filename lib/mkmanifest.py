#!/usr/bin/env python3
"""Regenerate /verif/MANIFEST.json from lib/registry.py (single source of truth)."""
import json, os, sys
sys.path.insert(0, os.path.dirname(os.path.abspath(__file__)))
from registry import PROPERTIES, NOT_APPLICABLE, GROUPS

VERIF = os.path.dirname(os.path.dirname(os.path.abspath(__file__)))
checks = []
for pid in sorted(PROPERTIES):
    p = PROPERTIES[pid]
    checks.append({
        "property_id": pid,
        "quick_cmd": "./verif check %s --tier quick" % pid,
        "thorough_cmd": "./verif check %s --tier thorough" % pid,
        "evidence_file": "evidence/%s.json" % pid,
        "replay_cmd_template": "./verif replay {path}",
        "engine": "kani-cbmc",
        "level_claimed": {
            "category": p["level"],
            "text": p["claim"],
            "design_ref": p.get("design_ref", "DESIGN.md section 4, " + pid),
        },
        "level_note": p["level_note"],
        "technique": p.get("technique", "bounded model checking of the real Rust code with Kani/CBMC (SAT, cadical): symbolic inputs/pre-states, assertions decided for all values within stated bounds, counterexamples replayed natively"),
    })
m = {
    "version": 1,
    "setup_cmd": "./verif list > /dev/null",
    "hooks": {
        "guard": "kani",
        "enable": "no committed hooks: each check copies /repo's working tree to a scratch directory and appends `#[cfg(kani)] mod verif_*` harness modules and cfg(kani)-guarded dispatch lines (contract stubs, token queue, panic-point hooks, one cut point in AIGER parse()) there; tokenizer-level groups additionally swap flussab/src/deferred_reader.rs for the reader model (harness/flussab/reader_model.rs) whose soundness is the C02 check; cfg(kani) is set only by the Kani compiler, so nothing of this exists in a normal build",
        "baseline_off_cmd": "cd /repo && cargo test --workspace --no-fail-fast --offline",
        "source_commits": [],
        "add_only": True,
    },
    "engines": [
        {"name": "kani-cbmc", "path": "lib/runner.py", "serves_properties": sorted(PROPERTIES),
         "kind_free_text": "Kani 0.68 proof harnesses over the real code in a scratch copy of /repo's working tree; CBMC 6.11 + cadical decide every check; concrete playback replays counterexamples natively"},
    ],
    "checks": checks,
    "not_applicable": [{"property_id": k, "reason": v} for k, v in sorted(NOT_APPLICABLE.items()) if k not in PROPERTIES],
    "notes": "See DESIGN.md. Exit 0 = held within bounds, 1 = replayed violation, 2 = inconclusive (timeout/OOM/tool error/vacuity) and never success.",
}
json.dump(m, open(os.path.join(VERIF, "MANIFEST.json"), "w"), indent=1)
print("wrote MANIFEST.json with", len(checks), "checks")
