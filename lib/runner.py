#!/usr/bin/env python3
"""Runner for the solver-based checks of jix/flussab (see /verif/DESIGN.md).

  verif check <PROPERTY> [--tier quick|thorough] [--keep] [--only HARNESS[,HARNESS..]]
  verif replay <path>
  verif list

Every check copies the *current working tree* of /repo to a scratch directory outside /repo and
/verif, overlays the cfg(kani)-guarded harness modules from /verif/harness, runs `cargo kani`
(CBMC + cadical) per harness, parses the per-check results, replays any failure natively via Kani's
concrete playback, writes /verif/evidence/<id>.json and removes the scratch directory.

Exit codes: 0 = property held on everything explored (KNOWN-FINDING lines may be printed),
            1 = at least one replayed violation (a `VIOLATION property=<id> replay=<path>` line),
            2 = inconclusive / tool error (never reported as success).
"""
import json
import os
import re
import resource
import shutil
import signal
import subprocess
import sys
import tempfile
import time
from concurrent.futures import ThreadPoolExecutor

VERIF = os.path.dirname(os.path.dirname(os.path.abspath(__file__)))
REPO = os.environ.get("VERIF_REPO", "/repo")
SCRATCH_ROOT = os.environ.get("VERIF_SCRATCH", "/tmp")
MAX_PAR = int(os.environ.get("VERIF_JOBS", "12"))
MEM_GB = int(os.environ.get("VERIF_MEM_GB", "40"))  # address-space limit per job
RSS_GB = int(os.environ.get("VERIF_RSS_GB", "12"))  # resident limit per job (watchdog)

sys.path.insert(0, os.path.join(VERIF, "lib"))


def log(*a):
    print(*a, flush=True)


# ------------------------------------------------------------------------------------------------
# scratch tree


def make_scratch(tag):
    d = tempfile.mkdtemp(prefix="fv_%s_" % tag, dir=SCRATCH_ROOT)
    subprocess.check_call(
        ["rsync", "-a", "--exclude", "/target", "--exclude", ".git", REPO + "/", d + "/src_tree/"]
    )
    tree = os.path.join(d, "src_tree")
    os.makedirs(os.path.join(tree, ".cargo"), exist_ok=True)
    with open(os.path.join(tree, ".cargo", "config.toml"), "a") as f:
        f.write("\n[net]\noffline = true\n")
    return d, tree


class OverlayError(Exception):
    pass


def apply_overlay(tree, group, tier):
    """Append cfg(kani) modules; optionally swap in the reader model; write the params file."""
    for rel, src in group.get("replace", []):
        shutil.copy(os.path.join(VERIF, src), os.path.join(tree, rel))
    for rel, text in group.get("append_text", []):
        with open(os.path.join(tree, rel), "a") as f:
            f.write("\n" + text + "\n")
    for rel, pattern, repl in group.get("subst_src", []):
        # mechanical retargeting of an import (used to swap a dependency for its model)
        path = os.path.join(tree, rel)
        src_text = open(path).read()
        new_text, k = re.subn(pattern, repl, src_text)
        if k != 1:
            raise OverlayError("subst pattern %r matches %d times in %s" % (pattern, k, rel))
        with open(path, "w") as f:
            f.write(new_text)
    for rel, anchor, text in group.get("inject", []):
        path = os.path.join(tree, rel)
        src_text = open(path).read()
        ms = list(re.finditer(anchor, src_text))
        if len(ms) != 1:
            raise OverlayError("inject anchor %r matches %d times in %s" % (anchor, len(ms), rel))
        m = ms[0]
        src_text = src_text[: m.end()] + text + src_text[m.end():]
        with open(path, "w") as f:
            f.write(src_text)
    for item in list(group["overlay"]) + list(group.get("overlay_extra", [])):
        rel, modname, src = item[:3]
        vis = item[3] if len(item) > 3 else "pub(crate)"
        crate_src = os.path.join(tree, os.path.dirname(rel))
        dst = os.path.join(crate_src, "verif_%s.rs" % modname)
        # modules nested in non-mod files resolve #[path] relative to <file stem>/ ; use absolute
        with open(os.path.join(VERIF, src)) as f:
            htext = f.read().replace("@VERIF@", VERIF)
        for k, v in group.get("subst", {}).items():
            htext = htext.replace(k, v)
        with open(dst, "w") as f:
            f.write(htext)
        with open(os.path.join(tree, rel), "a") as f:
            f.write(
                '\n#[cfg(kani)]\n#[path = "%s"]\n%s mod verif_%s;\n' % (dst, vis, modname)
            )
    params = dict(group.get("params", {}).get("quick", {}))
    if tier == "thorough":
        params.update(group.get("params", {}).get("thorough", {}))
    for crate in group.get("params_crates", []):
        with open(os.path.join(tree, crate, "src", "verif_params.rs"), "w") as f:
            for k, v in params.items():
                if isinstance(v, bool):
                    f.write("pub const %s: bool = %s;\n" % (k, "true" if v else "false"))
                else:
                    f.write("pub const %s: usize = %d;\n" % (k, v))
    return params


# ------------------------------------------------------------------------------------------------
# running one harness


def _limits():
    os.setsid()
    lim = MEM_GB * (1 << 30)
    resource.setrlimit(resource.RLIMIT_AS, (lim, lim))


def run_cmd(cmd, cwd, timeout, logfile, env=None, rss_gb=None):
    rss_limit = (rss_gb or RSS_GB) * (1 << 20)
    t0 = time.time()
    with open(logfile, "w") as lf:
        p = subprocess.Popen(
            cmd, cwd=cwd, stdout=lf, stderr=subprocess.STDOUT, preexec_fn=_limits, env=env
        )
        timed_out = False
        rc = None
        while rc is None:
            try:
                rc = p.wait(timeout=5)
            except subprocess.TimeoutExpired:
                over = time.time() - t0 > timeout
                rss = 0
                if not over:
                    try:
                        out = subprocess.check_output(["ps", "-o", "rss=", "-g", str(p.pid)], text=True)
                        rss = sum(int(x) for x in out.split())
                    except Exception:
                        rss = 0
                if over or rss > rss_limit:
                    timed_out = over
                    try:
                        os.killpg(p.pid, signal.SIGKILL)
                    except ProcessLookupError:
                        pass
                    p.wait()
                    rc = -9
                    if not over:
                        lf.write("\nVERIF-RUNNER: killed, resident memory above %d GB (out of memory)\n" % (rss_gb or RSS_GB))
    return rc, timed_out, time.time() - t0


CHECK_RE = re.compile(
    r"^Check (\d+): (.+)\n\t - Status: (\S+)\n\t - Description: \"(.*)\"\n(?:\t - Location: (.*)\n)?",
    re.M,
)


def parse_kani_log(text):
    checks = []
    for m in CHECK_RE.finditer(text):
        checks.append(
            {
                "id": int(m.group(1)),
                "name": m.group(2),
                "status": m.group(3),
                "description": m.group(4),
                "location": m.group(5) or "",
            }
        )
    res = {"checks": checks}
    m = re.search(r"^VERIFICATION:- (\w+)", text, re.M)
    res["verdict"] = m.group(1) if m else None
    m = re.search(r"^Verification Time: ([\d.]+)s", text, re.M)
    res["verification_time_s"] = float(m.group(1)) if m else None
    res["solver_time_s"] = sum(float(x) for x in re.findall(r"^Runtime Solver: ([\d.]+)s", text, re.M))
    res["solver_queries"] = len(re.findall(r"^Runtime Solver: ", text, re.M))
    m = re.search(r"^Runtime Symex: ([\d.]+)s", text, re.M)
    res["symex_s"] = float(m.group(1)) if m else None
    m = re.search(r"Generated (\d+) VCC\(s\), (\d+) remaining after simplification", text)
    res["vccs"] = int(m.group(1)) if m else 0
    res["vccs_remaining"] = int(m.group(2)) if m else 0
    tests = []
    for m in re.finditer(
        r"Concrete playback unit test for `([^`]*)`:\n```\n(.*?)\n```", text, re.S
    ):
        code = m.group(2)
        mc = re.search(r"/// Check for `(\w+)`: \"(.*)\"", code)
        mn = re.search(r"fn (kani_concrete_playback_\w+)\(", code)
        tests.append(
            {
                "harness": m.group(1),
                "class": mc.group(1) if mc else "",
                "check": mc.group(2).strip('"') if mc else "",
                "name": mn.group(1) if mn else "",
                "code": code,
            }
        )
    res["tests"] = tests
    res["compile_error"] = bool(re.search(r"^error(\[E\d+\])?:", text, re.M)) and not checks
    res["stubs"] = sorted(set(re.findall(r"^\s*- Stub: (.*)$", text, re.M)))
    return res


CURRENT_TIER = ["quick"]


def kani_cmd(group, hname, hspec, tgt, extra=()):
    full = hspec.get("prefix", group.get("prefix", "")) + hname
    cmd = ["cargo", "kani", "-p", group["package"], "--harness", full, "--exact", "--target-dir", tgt]
    cmd += ["--no-assertion-reach-checks"]
    flags = list(group.get("flags", [])) + list(group.get("flags_tier", {}).get(CURRENT_TIER[0], [])) + list(hspec.get("flags", []))
    flags += list(hspec.get("flags_tier", {}).get(CURRENT_TIER[0], []))
    cmd += flags
    cmd += list(extra)
    return cmd


def classify(hname, hspec, rc, timed_out, parsed, logtext):
    """-> (status, detail). status in PASS, FAIL, INCONCLUSIVE"""
    kind = hspec.get("kind", "proof")
    if timed_out:
        return "INCONCLUSIVE", "timeout"
    if parsed["compile_error"] or (parsed["verdict"] is None):
        if "memory" in logtext.lower() and "out of" in logtext.lower():
            return "INCONCLUSIVE", "out of memory"
        return "INCONCLUSIVE", "tool error (no verdict; harness did not build or CBMC died)"
    must = hspec.get("must_fail_with")
    bad_status = [c for c in parsed["checks"] if c["status"] in ("ERROR", "UNDETERMINED")]
    failed = [c for c in parsed["checks"] if c["status"] == "FAILURE"]
    unsat_cov = [c for c in parsed["checks"] if c["status"] == "UNSATISFIABLE"]
    unwinding = [c for c in failed if "unwinding assertion" in c["description"]]
    if unwinding and kind != "reach" and not must:
        return "INCONCLUSIVE", "unwinding bound too small for this tree (loop may run longer than the harness allows): " + unwinding[0]["name"][:120]
    unsupported = [c for c in failed if "not currently supported by Kani" in c["description"]]
    if unsupported:
        return "INCONCLUSIVE", "code uses a construct Kani cannot encode: " + unsupported[0]["description"][:120]
    if bad_status and not failed:
        return "INCONCLUSIVE", "solver status ERROR/UNDETERMINED"
    must = hspec.get("must_fail_with")
    if must:
        # documented panics: these failures are expected (and required, as reachability witness);
        # any other failure is a real one
        hit = [c for c in failed if any(m in c["description"] for m in must)]
        failed = [c for c in failed if not any(m in c["description"] for m in must)]
        if not hit and not failed:
            return "INCONCLUSIVE", "vacuity: documented panic %r not reached" % must
        if not failed:
            return "PASS", "documented panic reached; invariant held at the panic point"
        return "FAIL", "; ".join(sorted(set(c["description"] for c in failed)))[:600]
    if kind == "reach":
        # vacuity twin: must fail, and only in its witness assertion
        if failed and all("reachability witness" in c["description"] for c in failed):
            return "PASS", "reachability witness violated as required"
        if not failed:
            return "INCONCLUSIVE", "vacuity: reachability twin did not fail"
        return "FAIL", "reach twin failed elsewhere"
    if failed:
        return "FAIL", "; ".join(sorted(set(c["description"] for c in failed)))[:600]
    if parsed["verdict"] != "SUCCESSFUL":
        return "INCONCLUSIVE", "verdict %s without failed checks" % parsed["verdict"]
    if unsat_cov:
        return "INCONCLUSIVE", "vacuity: cover not satisfiable: " + "; ".join(
            c["description"] for c in unsat_cov
        )
    return "PASS", ""


# ------------------------------------------------------------------------------------------------
# result cache: the same harness serves several properties; within one machine session a PASS of
# (harness, group, tier, parameters) on byte-identical inputs is reused instead of being solved
# again. The key covers every file of the scratch tree as overlaid (= /repo's current working tree
# + harness sources + injected lines + parameters), the kani command line and this runner, so any
# edit to /repo or /verif misses the cache. Only PASS results are cached; nothing a check needs
# lives here (an empty cache just means every harness is solved).

CACHE_DIR = os.environ.get("VERIF_CACHE", "/tmp/fv_cache")
_TREE_HASH = {}


def tree_hash(tree):
    if tree in _TREE_HASH:
        return _TREE_HASH[tree]
    import hashlib
    h = hashlib.sha256()
    for root, dirs, files in os.walk(tree):
        dirs[:] = sorted(d for d in dirs if d not in ("target", ".git"))
        for fn in sorted(files):
            fp = os.path.join(root, fn)
            h.update(os.path.relpath(fp, tree).encode())
            try:
                with open(fp, "rb") as f:
                    # scratch paths differ per run: normalise them
                    h.update(f.read().replace(tree.encode(), b"@TREE@").replace(os.path.dirname(tree).encode(), b"@SCRATCH@"))
            except OSError:
                pass
    with open(os.path.abspath(__file__), "rb") as f:
        h.update(f.read())
    _TREE_HASH[tree] = h.hexdigest()
    return _TREE_HASH[tree]


def cache_key(group, tree, hname, hspec, tier):
    import hashlib
    cmd = kani_cmd(group, hname, hspec, "@TGT@")
    return hashlib.sha256(("|".join([tree_hash(tree), group["name"], hname, tier, " ".join(cmd)])).encode()).hexdigest()


def run_harness(group, tree, scratch, hname, hspec, tier):
    if os.environ.get("VERIF_NO_CACHE") != "1":
        try:
            key = cache_key(group, tree, hname, hspec, tier)
            cpath = os.path.join(CACHE_DIR, key + ".json")
            if os.path.exists(cpath):
                r = json.load(open(cpath))
                r["cached"] = True
                r["detail"] = (r.get("detail") or "") + " [result of an identical run in this session reused]"
                return r
        except Exception:
            key = None
    else:
        key = None
    r = _run_harness(group, tree, scratch, hname, hspec, tier)
    if key and r["status"] == "PASS":
        try:
            os.makedirs(CACHE_DIR, exist_ok=True)
            rr = dict(r)
            rr["parsed"] = dict(r["parsed"])
            rr["parsed"]["tests"] = []
            tmp = os.path.join(CACHE_DIR, key + ".tmp%d" % os.getpid())
            json.dump(rr, open(tmp, "w"))
            os.replace(tmp, os.path.join(CACHE_DIR, key + ".json"))
        except Exception:
            pass
    return r


def _run_harness(group, tree, scratch, hname, hspec, tier):
    tgt = os.path.join(scratch, "tgt_" + re.sub(r"\W", "_", hname))
    base = os.path.join(scratch, "tgt_base_" + group["package"])
    if os.path.isdir(base) and not os.path.isdir(tgt):
        subprocess.call(["cp", "-a", base, tgt])
    logfile = os.path.join(scratch, "log_%s.txt" % re.sub(r"\W", "_", hname))
    timeout = hspec.get("timeout", {}).get(tier, group.get("timeout", {}).get(tier, 1500))
    rc, timed_out, wall = run_cmd(kani_cmd(group, hname, hspec, tgt), tree, timeout, logfile,
                                  rss_gb=hspec.get("rss_gb", group.get("rss_gb")))
    text = open(logfile, errors="replace").read()
    parsed = parse_kani_log(text)
    status, detail = classify(hname, hspec, rc, timed_out, parsed, text)
    shutil.rmtree(tgt, ignore_errors=True)
    return {
        "harness": hname,
        "group": group["name"],
        "kind": hspec.get("kind", "proof"),
        "status": status,
        "detail": detail,
        "wall_s": round(wall, 1),
        "parsed": parsed,
        "logfile": logfile,
        "what": hspec.get("what", ""),
        "must_fail_with": hspec.get("must_fail_with"),
    }


def zflags(flags):
    out = []
    for i, f in enumerate(flags):
        if f == "-Z" and i + 1 < len(flags):
            out += ["-Z", flags[i + 1]]
    return out


def warm_build(group, tree, scratch):
    """Compile the dependencies once in Kani mode so that per-harness builds only rebuild the crate."""
    base = os.path.join(scratch, "tgt_base_" + group["package"])
    if os.path.isdir(base):
        return True, ""
    logfile = os.path.join(scratch, "log_warm_%s.txt" % group["name"])
    cmd = ["cargo", "kani", "-p", group["package"], "--only-codegen", "--target-dir", base]
    cmd += zflags(group.get("flags", []))
    rc, to, wall = run_cmd(cmd, tree, 900, logfile)
    text = open(logfile, errors="replace").read()
    if rc != 0:
        return False, text[-3000:]
    return True, ""


# ------------------------------------------------------------------------------------------------
# replay of a failing harness (Kani concrete playback, run natively)


def replay_failure(group, tree, scratch, res, tier, pid):
    """Run the concrete-playback unit tests that Kani generated for the failed checks natively
    against the scratch copy of the real code (dev and release profile).
    Returns (reproduced: True/False, replay_path)."""
    hname = res["harness"]
    hspec = res_spec(group, hname, tier)
    os.makedirs(os.path.join(REPLAY_DIR[0], pid), exist_ok=True)
    rpath = os.path.join(REPLAY_DIR[0], pid, re.sub(r"\W", "_", hname) + ".md")
    failed = real_failures(res)
    lines = ["# Replay for property %s, harness `%s` (tier %s)" % (pid, hname, tier), ""]
    lines += ["What the harness checks: " + res.get("what", ""), ""]
    lines += ["## Failed checks (solver verdict over all inputs within the bounds)", ""]
    for c in failed:
        lines.append("- `%s`: %s (%s)" % (c["name"], c["description"], c["location"]))
    lines.append("")
    ub_only = all(
        re.search(r"pointer|dereference|memcpy|memmove|free|object|NULL|invalid", c["description"], re.I)
        and "assertion failed" not in c["description"]
        for c in failed
    )
    # second run of the failing harness with concrete playback (costs memory, so not done up front)
    tgt = os.path.join(scratch, "tgt_replay_" + re.sub(r"\W", "_", hname))
    rlog = os.path.join(scratch, "log_replay_%s.txt" % re.sub(r"\W", "_", hname))
    cmd = kani_cmd(group, hname, hspec, tgt, extra=["-Z", "concrete-playback", "--concrete-playback=print"])
    run_cmd(cmd, tree, 3600, rlog, rss_gb=30)
    shutil.rmtree(tgt, ignore_errors=True)
    rparsed = parse_kani_log(open(rlog, errors="replace").read())
    fdesc = [c["description"] for c in failed]
    tests = [t for t in rparsed.get("tests", []) if t["class"] != "cover" and t["name"]
             and any(t["check"] in d or d in t["check"] for d in fdesc)]
    seen = set()
    uniq = []
    for t in tests:
        if t["name"] not in seen:
            seen.add(t["name"])
            uniq.append(t)
    tests = uniq[:4]
    reproduced = False
    rtext = open(rlog, errors="replace").read()
    # a playback run that ended in memory exhaustion still prints a verdict line (FAILED) but has
    # no result for the checks: that is "not produced", not "not reproduced"
    died = any(m in rtext for m in ("bad_alloc", "ut of memory", "CBMC failed", "Status: ERROR", "SIGKILL", "signal: 9", "signal: 6"))
    if not tests and (rparsed.get("verdict") is None or died):
        # The playback run itself did not finish: with trace generation CBMC cannot slice the
        # formula, which multiplies memory (DESIGN.md 2.5). The failed checks above are the
        # verdict of the normal (sliced) run of the same harness; source-level stubs are ordinary
        # code in that run, so nothing in the encoding differs from what a replay would execute.
        lines += ["Native replay NOT PRODUCED: the concrete-playback run of this harness exceeded the "
                  "memory/time limit (trace generation disables formula slicing). The violation is "
                  "reported on the solver verdict of the normal run alone."]
        reproduced = True
    elif not tests:
        lines += ["Kani produced no concrete playback test for the failed checks."]
    else:
        # inject into the scratch copy of the harness module
        modfile = None
        prefix = hspec.get("prefix", group.get("prefix", ""))
        for rel, modname, src in group["overlay"]:
            if ("verif_%s::" % modname) in prefix or len(group["overlay"]) == 1:
                modfile = os.path.join(tree, os.path.dirname(rel), "verif_%s.rs" % modname)
        with open(modfile, "a") as f:
            for t in tests:
                f.write("\n" + t["code"] + "\n")
        lines += ["## Concrete counterexample (Kani playback test; the byte vectors are the solver model)", ""]
        for t in tests:
            lines += ["```rust", t["code"], "```", ""]
        outs = []
        zf = zflags(list(group.get("flags", [])) + list(hspec.get("flags", [])))
        names = [t["name"] for t in tests]
        # dev profile = what Kani models; "release-like" = optimised, no overflow/debug checks
        rel_env = {
            "CARGO_PROFILE_DEV_OPT_LEVEL": "3",
            "CARGO_PROFILE_DEV_DEBUG_ASSERTIONS": "false",
            "CARGO_PROFILE_DEV_OVERFLOW_CHECKS": "false",
        }
        for prof, extra_env in (("dev", {}), ("release-like (opt-level 3, no overflow/debug checks)", rel_env)):
            plog = os.path.join(scratch, "log_playback_%s_%s.txt" % (re.sub(r"\W", "_", hname), prof[:3]))
            pcmd = ["cargo", "kani", "playback", "-Z", "concrete-playback", "-p", group["package"]] + zf
            pcmd += ["--", "kani_concrete_playback_" + hname + "_"]
            env = dict(os.environ)
            env.update(extra_env)
            env["CARGO_TARGET_DIR"] = os.path.join(scratch, "tgt_playback_" + prof[:3])
            rc2, to2, w2 = run_cmd(pcmd, tree, 1200, plog, env=env)
            ptext = open(plog, errors="replace").read()
            failed_native = bool(re.search(r"test result: FAILED", ptext)) and any(
                re.search(r"%s \.\.\. FAILED|---- .*%s stdout" % (n, n), ptext) for n in names
            )
            # a test binary killed by a signal (heap corruption detected by the allocator, SIGSEGV,
            # abort) is a native reproduction as well
            if re.search(r"process didn't exit successfully.*\(signal: \d+", ptext):
                failed_native = True
            ran = bool(re.search(r"running \d+ test", ptext))
            keep = "\n".join(
                l for l in ptext.splitlines()
                if re.search(r"^test |panicked|test result|^failures|assertion|kani_concrete", l)
            )
            outs.append((prof, failed_native, ran, keep[-2500:]))
            if failed_native:
                reproduced = True
            shutil.rmtree(env["CARGO_TARGET_DIR"], ignore_errors=True)
        lines += ["## Native execution of the playback test against the real code", ""]
        for prof, fn, ran, tail in outs:
            verdict = "FAILS natively (reproduced)" if fn else ("passes natively (NOT reproduced)" if ran else "did not run")
            lines += ["### profile %s: %s" % (prof, verdict), "```", tail, "```", ""]
    so = hspec.get("solver_only") or []
    if not reproduced and so and all(any(x in c["description"] for x in so) for c in failed):
        lines += ["", "Note: the failed checks are verification conditions placed in Kani function stubs "
                  "(allocation bound). Kani does not apply function stubs during concrete playback, so "
                  "the native run allocates for real instead of evaluating the condition; the violation "
                  "is reported on the solver verdict (the concrete values above are the solver model)."]
        reproduced = True
    if not reproduced and ub_only:
        lines += ["", "Note: the failed checks are pointer/validity checks that have no native symptom; "
                  "reported on the solver verdict alone (triage by reading)."]
        reproduced = True
    lifter = hspec.get("scenario") or group.get("scenario")
    if lifter:
        lines += ["", "## Public-API scenario", "", lifter]
    with open(rpath, "w") as f:
        f.write("\n".join(lines) + "\n")
    return reproduced, rpath


def res_spec(group, hname, tier):
    for n, spec in harness_list(group, tier):
        if n == hname:
            return spec
    return {}


def harness_list(group, tier):
    hs = []
    for n, spec in group["harnesses"]:
        tiers = spec.get("tiers", ("quick", "thorough"))
        if tier in tiers:
            hs.append((n, spec))
    return hs


# ------------------------------------------------------------------------------------------------
# known findings


def load_known():
    path = os.path.join(VERIF, "known_findings.txt")
    out = []
    if os.path.exists(path):
        for line in open(path):
            line = line.strip()
            if line.startswith("finding:"):
                m = re.match(r"finding:\s+property=(\S+)\s+harness=(\S+)\s+assert=\"(.*?)\"\s+(.*)$", line)
                if m:
                    out.append({"property": m.group(1), "harness": m.group(2), "assert": m.group(3), "what": m.group(4)})
    return out


def real_failures(res):
    must = res.get("must_fail_with") or []
    return [
        c for c in res["parsed"]["checks"]
        if c["status"] == "FAILURE" and not any(m in c["description"] for m in must)
        and not (res.get("kind") == "reach" and "reachability witness" in c["description"])
    ]


def match_known(known, pid, res):
    """A failing harness is a known finding iff *every* failed check is listed for (pid, harness)."""
    failed = real_failures(res)
    if not failed:
        return None
    hits = []
    for c in failed:
        hit = None
        for k in known:
            if k["property"] == pid and k["harness"] == res["harness"] and k["assert"] in c["description"]:
                hit = k
        if not hit:
            return None
        hits.append(hit)
    return hits


# ------------------------------------------------------------------------------------------------
# main check


def repo_fingerprint():
    try:
        head = subprocess.check_output(["git", "-C", REPO, "rev-parse", "HEAD"], text=True).strip()
        dirty = subprocess.check_output(["git", "-C", REPO, "status", "--porcelain"], text=True).strip()
        return head + ("+dirty" if dirty else "")
    except Exception:
        return "unknown"


def run_check(pid, tier, keep=False, only=None, dev_group=None):
    from registry import PROPERTIES

    prop = PROPERTIES[pid]
    CURRENT_TIER[0] = tier
    if only or dev_group or os.path.realpath(REPO) != "/repo" or os.environ.get("VERIF_NO_EVIDENCE"):
        # development / seeded-change runs: partial or foreign-tree results never overwrite the
        # committed evidence of /repo
        alt = os.environ.get("VERIF_ALT_OUT", "/tmp/fv_dev_out")
        EVIDENCE_DIR[0] = os.path.join(alt, "evidence")
        REPLAY_DIR[0] = os.path.join(alt, "replays")
    seed = int(os.environ.get("VERIF_SEED", "0") or 0)
    t0 = time.time()
    known = load_known()
    scratches = []
    results = []
    violations = []
    known_hits = []
    inconclusive = []
    audits = []
    params_used = {}
    try:
        # syntactic audits regenerated from the current tree (belt and braces, see DESIGN)
        for audit in prop.get("audits", []):
            import audits as audits_mod
            ok, msg = getattr(audits_mod, audit)(REPO)
            audits.append({"audit": audit, "ok": ok, "detail": msg})
            if not ok:
                inconclusive.append("audit %s: %s" % (audit, msg))
        jobs = []
        prepared = []
        for gname in ([dev_group] if dev_group else prop["groups"]):
            from registry import GROUPS
            group = GROUPS[gname]
            hs = harness_list(group, tier)
            if not dev_group and not (prop.get("all_harnesses") and gname in prop.get("all_harnesses")):
                hs = [(n, s) for n, s in hs if pid in s.get("props", [pid])]
            if only:
                hs = [(n, s) for n, s in hs if n in only]
            if not hs:
                continue
            scratch, tree = make_scratch(pid + "_" + gname)
            scratches.append(scratch)
            try:
                params_used[gname] = apply_overlay(tree, group, tier)
            except OverlayError as e:
                inconclusive.append("group %s: overlay does not apply: %s" % (gname, e))
                continue
            prepared.append((gname, group, tree, scratch, hs))
        # compile the dependencies of every group once, groups in parallel
        with ThreadPoolExecutor(max_workers=max(1, min(len(prepared), MAX_PAR))) as ex:
            builds = list(ex.map(lambda t: warm_build(t[1], t[2], t[3]), prepared))
        for (gname, group, tree, scratch, hs), (ok, err) in zip(prepared, builds):
            if not ok:
                inconclusive.append("group %s does not build: %s" % (gname, err[-600:]))
                log("INCONCLUSIVE group=%s build failed\n%s" % (gname, err[-2000:]))
                continue
            for n, s in hs:
                jobs.append((group, tree, scratch, n, s))
        # heavier harnesses first
        jobs.sort(key=lambda j: -j[4].get("cost", 1))
        with ThreadPoolExecutor(max_workers=MAX_PAR) as ex:
            futs = [ex.submit(run_harness, g, tr, sc, n, s, tier) for (g, tr, sc, n, s) in jobs]
            for (g, tr, sc, n, s), f in zip(jobs, futs):
                r = f.result()
                results.append(r)
                log("  [%s] %-55s %-12s %6.0fs  %s" % (pid, r["harness"], r["status"], r["wall_s"], r["detail"][:160]))
        # triage failures
        for (g, tr, sc, n, s), r in zip(jobs, results):
            if r["status"] == "FAIL":
                hits = match_known(known, pid, r)
                if hits:
                    for h in hits:
                        known_hits.append(h)
                    r["status"] = "KNOWN"
                    continue
                reproduced, rpath = replay_failure(g, tr, sc, r, tier, pid)
                r["replay"] = rpath
                if reproduced:
                    violations.append((r, rpath))
                else:
                    r["status"] = "INCONCLUSIVE"
                    r["detail"] = "solver counterexample did not reproduce natively (encoding suspect): " + r["detail"]
                    inconclusive.append("%s: counterexample not reproduced" % n)
            elif r["status"] == "INCONCLUSIVE":
                inconclusive.append("%s: %s" % (n, r["detail"]))
                # keep the log tail for diagnosis
                try:
                    tail = open(r["logfile"], errors="replace").read()[-1500:]
                    log("---- tail of %s ----\n%s\n----" % (n, tail))
                except Exception:
                    pass
    finally:
        wall = time.time() - t0
        write_evidence(pid, prop, tier, seed, results, violations, known_hits, inconclusive, audits, params_used, wall)
        if not keep:
            for s in scratches:
                shutil.rmtree(s, ignore_errors=True)
        else:
            log("kept scratch: %s" % scratches)
    seen = set()
    for h in known_hits:
        key = (h["harness"], h["assert"])
        if key in seen:
            continue
        seen.add(key)
        log("KNOWN-FINDING: property=%s %s [harness %s]" % (pid, h["what"], h["harness"]))
    for r, rpath in violations:
        log("VIOLATION property=%s replay=%s" % (pid, rpath))
    if violations:
        return 1
    if inconclusive:
        for i in inconclusive:
            log("INCONCLUSIVE property=%s %s" % (pid, i[:300]))
        return 2
    log("OK property=%s tier=%s harnesses=%d wall=%.0fs" % (pid, tier, len(results), wall))
    return 0


def is_repo_loc(c):
    loc = c.get("location", "")
    return ("flussab" in loc or "verif" in loc) and "rustlib" not in loc and ".kani" not in loc


EVIDENCE_DIR = [os.path.join(VERIF, "evidence")]
REPLAY_DIR = [os.path.join(VERIF, "replays")]


def write_evidence(pid, prop, tier, seed, results, violations, known_hits, inconclusive, audits, params_used, wall):
    os.makedirs(EVIDENCE_DIR[0], exist_ok=True)
    total_checks = 0
    nontrivial = set()
    samples = []
    harness_rows = []
    solver_time = 0.0
    queries = 0
    vccs = 0
    stubs = set()
    covers_sat = 0
    for r in results:
        p = r["parsed"]
        ok_checks = [c for c in p["checks"] if c["status"] in ("SUCCESS", "SATISFIED")]
        total_checks += len(p["checks"])
        for c in ok_checks:
            if is_repo_loc(c):
                nontrivial.add((r["harness"], c["name"], c["description"]))
        covers_sat += len([c for c in p["checks"] if c["status"] == "SATISFIED"])
        solver_time += p.get("solver_time_s") or 0
        queries += p.get("solver_queries") or 0
        vccs += p.get("vccs_remaining") or 0
        stubs.update(p.get("stubs", []))
        harness_rows.append(
            {
                "harness": r["harness"],
                "group": r["group"],
                "what": r["what"],
                "kind": r["kind"],
                "status": r["status"],
                "detail": r["detail"][:300],
                "checks": len(p["checks"]),
                "checks_failed": len([c for c in p["checks"] if c["status"] == "FAILURE"]),
                "covers_satisfied": len([c for c in p["checks"] if c["status"] == "SATISFIED"]),
                "vccs_after_simplification": p.get("vccs_remaining"),
                "solver_queries": p.get("solver_queries"),
                "solver_time_s": round(p.get("solver_time_s") or 0, 1),
                "symex_s": p.get("symex_s"),
                "wall_s": r["wall_s"],
                "reused_from_identical_run_in_session": bool(r.get("cached")),
            }
        )
    def _user_level(c):
        d = c["description"]
        return d.startswith("assertion failed") or d.startswith("\"") or c["status"] in ("SATISFIED", "UNSATISFIABLE")
    for r in results[:8]:
        user = [c for c in r["parsed"]["checks"] if is_repo_loc(c) and _user_level(c)]
        samples.append(
            {
                "harness": r["harness"],
                "what": r["what"],
                "status": r["status"],
                "assertions_decided_for_all_inputs_in_bounds": [c["description"] for c in user if c["status"] == "SUCCESS"][:8],
                "cover_witnesses": [c["description"] + " -> " + c["status"] for c in user if c["status"] in ("SATISFIED", "UNSATISFIABLE")][:8],
                "failed": [c["description"] for c in r["parsed"]["checks"] if c["status"] == "FAILURE"][:5],
            }
        )
    if not samples:
        samples = [{"note": "no harness ran"}]
    ev = {
        "property_id": pid,
        "tier": tier,
        "seed": seed,
        "level": prop["level"],
        "wall_s": round(wall, 1),
        "violations": len(violations),
        "coverage": {
            "evaluations": max(total_checks, 1),
            "distinct_nontrivial": max(len(nontrivial), 0),
            "rule": "one case = one verification condition (Kani/CBMC check or cover goal) decided by "
            "the SAT solver for ALL inputs inside the stated bounds; counted per harness from Kani's "
            "result listing. distinct_nontrivial counts the checks with verdict SUCCESS/SATISFIED that "
            "are located in /repo source or in the harness (std-library-internal checks excluded), "
            "distinct by (harness, check name, description).",
            "samples": samples,
            "explanation": prop["explanation"],
            "exhaustive": False,
            "technique": "bounded model checking of the real code: Kani 0.68 -> CBMC 6.11 -> cadical; "
            "unwinding assertions on; failures replayed natively by concrete playback",
            "functions_encoded": prop.get("functions", []),
            "bounds": params_used,
            "bounds_note": prop.get("bounds_note", ""),
            "outside_claim": prop.get("outside", []),
            "harnesses": harness_rows,
            "harnesses_run": len(results),
            "harnesses_passed": len([r for r in results if r["status"] == "PASS"]),
            "harnesses_inconclusive": [i[:300] for i in inconclusive],
            "known_findings_hit": [h["what"] for h in known_hits],
            "solver_queries": queries,
            "solver_time_s": round(solver_time, 1),
            "vccs_after_simplification": vccs,
            "cover_witnesses_satisfied": covers_sat,
            "stubs_in_effect": sorted(stubs),
            "audits": audits,
            "repo_state": repo_fingerprint(),
            "trusted_base": ["rustc/Kani 0.68 MIR->goto translation", "CBMC 6.11", "cadical", "Kani std models"],
        },
        "assumptions": prop.get("assumptions", []),
    }
    with open(os.path.join(EVIDENCE_DIR[0], pid + ".json"), "w") as f:
        json.dump(ev, f, indent=1)


def main(argv):
    if len(argv) < 2:
        print(__doc__)
        return 2
    if argv[1] == "list":
        from registry import PROPERTIES, GROUPS
        for pid, p in sorted(PROPERTIES.items()):
            print(pid, p["groups"])
            for g in p["groups"]:
                for n, s in GROUPS[g]["harnesses"]:
                    print("    ", g, n, s.get("tiers", ""))
        return 0
    if argv[1] == "check":
        pid = argv[2]
        tier = os.environ.get("VERIF_TIER", "quick")
        keep = False
        only = None
        dev_group = None
        i = 3
        while i < len(argv):
            if argv[i] == "--tier":
                tier = argv[i + 1]
                i += 2
            elif argv[i] == "--keep":
                keep = True
                i += 1
            elif argv[i] == "--only":
                only = argv[i + 1].split(",")
                i += 2
            elif argv[i] == "--group":  # development: run every harness of one group
                dev_group = argv[i + 1]
                i += 2
            else:
                i += 1
        return run_check(pid, tier, keep, only, dev_group)
    if argv[1] == "replay":
        print(open(argv[2]).read())
        return 0
    print(__doc__)
    return 2


if __name__ == "__main__":
    sys.exit(main(sys.argv))
