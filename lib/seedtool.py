#!/usr/bin/env python3
"""Development tooling for the seeded defects under /verif/seeded/<id>/ (not part of any check).

  seedtool.py confirm [ids...]   re-confirm each seeded change in a scratch worktree of /repo:
                                 (1) existing suite passes with the change, (2) the demonstration
                                 fails with the change, (3) passes without it; writes meta.json
  seedtool.py run [ids...]       apply each change to /repo, run the quick checks of the properties
                                 listed in meta.json ("checks"), undo the change; writes detect.json
"""
import json
import os
import re
import shutil
import subprocess
import sys
import time

VERIF = os.path.dirname(os.path.dirname(os.path.abspath(__file__)))
REPO = "/repo"
SEEDED = os.path.join(VERIF, "seeded")


def sh(cmd, cwd=None, timeout=3600, env=None):
    p = subprocess.run(cmd, cwd=cwd, shell=isinstance(cmd, str), stdout=subprocess.PIPE,
                       stderr=subprocess.STDOUT, text=True, timeout=timeout, env=env)
    return p.returncode, p.stdout


def demo_targets(d):
    """[(demo file, crate)] from the agent's README (where to copy the demo)."""
    readme = ""
    for fn in ("AGENT_README.md",):
        p = os.path.join(d, fn)
        if os.path.exists(p):
            readme = open(p).read()
    out = []
    for fn in sorted(os.listdir(d)):
        if fn.endswith(".rs"):
            stem = fn[:-3]
            crate = None
            # e.g. "flussab-cnf/tests/demo_2_cnf.rs" or "flussab/tests/demo_1.rs"
            k = os.path.basename(d).split("_")[-1]
            cands = re.findall(r"(flussab(?:-[a-z0-9]+)?)/tests/(demo_%s\w*)\.rs" % k, readme)
            for c, name in cands:
                if stem == "demo" and name == "demo_%s" % k:
                    crate = c
                if stem != "demo" and name.endswith(stem.replace("demo", "")):
                    crate = c
            if crate is None and cands:
                crate = cands[0][0]
            if crate:
                out.append((fn, crate))
    return out


def parse_tests(out):
    passed = failed = 0
    for m in re.finditer(r"test result: \w+\. (\d+) passed; (\d+) failed", out):
        passed += int(m.group(1))
        failed += int(m.group(2))
    return passed, failed


def confirm(ids):
    wt = "/tmp/seed_confirm_wt"
    sh("git -C %s worktree remove --force %s" % (REPO, wt))
    rc, out = sh("git -C %s worktree add --detach %s HEAD" % (REPO, wt))
    assert rc == 0, out
    try:
        for sid in ids:
            d = os.path.join(SEEDED, sid)
            patch = os.path.join(d, "patch.diff")
            meta_path = os.path.join(d, "meta.json")
            meta = json.load(open(meta_path)) if os.path.exists(meta_path) else {}
            sh("git checkout -- . && git clean -fdq -e target", cwd=wt)
            rc, out = sh("git apply --check %s" % patch, cwd=wt)
            res = {"applies": rc == 0}
            if rc != 0:
                res["error"] = out[-500:]
                meta["confirmation"] = res
                json.dump(meta, open(meta_path, "w"), indent=1)
                print(sid, "DOES NOT APPLY")
                continue
            sh("git apply %s" % patch, cwd=wt)
            rc, out = sh("cargo test --workspace --offline 2>&1", cwd=wt)
            p, f = parse_tests(out)
            res["suite_with_change"] = {"passed": p, "failed": f, "rc": rc}
            demos = demo_targets(d)
            res["demos"] = []
            for fn, crate in demos:
                os.makedirs(os.path.join(wt, crate, "tests"), exist_ok=True)
                dst = os.path.join(wt, crate, "tests", "seeddemo_" + fn)
                shutil.copy(os.path.join(d, fn), dst)
                tname = "seeddemo_" + fn[:-3]
                rc1, o1 = sh("cargo test --offline -p %s --test %s 2>&1" % (crate, tname), cwd=wt)
                p1, f1 = parse_tests(o1)
                sh("git apply -R %s" % patch, cwd=wt)
                for rel_mode in ("",):
                    rc2, o2 = sh("cargo test --offline -p %s --test %s 2>&1" % (crate, tname), cwd=wt)
                p2, f2 = parse_tests(o2)
                sh("git apply %s" % patch, cwd=wt)
                os.remove(dst)
                res["demos"].append({"file": fn, "crate": crate,
                                     "with_change": {"passed": p1, "failed": f1, "rc": rc1, "tail": o1[-300:] if rc1 != 0 and f1 == 0 else ""},
                                     "without_change": {"passed": p2, "failed": f2, "rc": rc2}})
            ok = (res["suite_with_change"]["failed"] == 0 and res["suite_with_change"]["rc"] == 0
                  and res["suite_with_change"]["passed"] >= 55
                  and any(x["with_change"]["rc"] != 0 and x["without_change"]["rc"] == 0 and x["without_change"]["passed"] > 0 for x in res["demos"]))
            res["confirmed"] = ok
            res["commands"] = ["git apply patch.diff", "cargo test --workspace --offline",
                               "cp demo.rs <crate>/tests/ && cargo test --offline -p <crate> --test <demo>  (with and without the patch)"]
            res["repo_head"] = sh("git -C %s rev-parse --short HEAD" % REPO)[1].strip()
            meta["confirmation"] = res
            json.dump(meta, open(meta_path, "w"), indent=1)
            print(sid, "CONFIRMED" if ok else "NOT CONFIRMED", json.dumps(res["suite_with_change"]),
                  [(x["file"], x["with_change"]["failed"], x["with_change"]["rc"], x["without_change"]["failed"], x["without_change"]["rc"]) for x in res["demos"]], flush=True)
    finally:
        sh("git -C %s worktree remove --force %s" % (REPO, wt))
        shutil.rmtree(wt, ignore_errors=True)
        sh("git -C %s worktree prune" % REPO)


def run(ids, tier="quick"):
    """Development mode: the change is applied in a scratch worktree and the checks are pointed at
    it with VERIF_REPO (so that /repo stays usable for concurrent work). The registered procedure
    (git -C /repo apply; run; git -C /repo checkout -- .) gives the same result."""
    wt = os.environ.get("SEED_WT", "/tmp/seed_run_wt")
    sh("git -C %s worktree remove --force %s" % (REPO, wt))
    rc, out = sh("git -C %s worktree add --detach %s HEAD" % (REPO, wt))
    assert rc == 0, out
    shutil.copy(os.path.join(REPO, "Cargo.lock"), os.path.join(wt, "Cargo.lock"))
    env = dict(os.environ)
    env["VERIF_REPO"] = wt
    try:
        for sid in ids:
            d = os.path.join(SEEDED, sid)
            meta_path = os.path.join(d, "meta.json")
            meta = json.load(open(meta_path)) if os.path.exists(meta_path) else {}
            checks = meta.get("checks") or [sid.split("_")[0]]
            sh("git checkout -- .", cwd=wt)
            rc, out = sh("git apply %s" % os.path.join(d, "patch.diff"), cwd=wt)
            if rc != 0:
                print(sid, "PATCH DOES NOT APPLY", out[-300:], flush=True)
                continue
            results = {}
            for item in checks:
                pid, only = item.split(":", 1) if ":" in item else (item, None)
                cmd = "./verif check %s --tier %s" % (pid, tier)
                if only:
                    cmd += " --only " + only
                t0 = time.time()
                rc, out = sh(cmd, cwd=VERIF, timeout=4 * 3600, env=env)
                lines = [l for l in out.splitlines() if re.match(r"^(VIOLATION|KNOWN-FINDING|INCONCLUSIVE|OK|  \[)", l)]
                results[item] = {"exit": rc, "wall_s": round(time.time() - t0),
                                 "lines": [l[:220] for l in lines if not l.rstrip().endswith("PASS") and "PASS   " not in l][:30]}
                print(sid, item, "exit", rc, "%.0fs" % (time.time() - t0), flush=True)
                for l in results[item]["lines"]:
                    print("     ", l, flush=True)
            meta["detection"] = {"tier": tier, "results": results,
                                 "detected": any(r["exit"] == 1 for r in results.values()),
                                 "repo_head": sh("git -C %s rev-parse --short HEAD" % REPO)[1].strip(),
                                 "at": time.strftime("%Y-%m-%d %H:%M:%S")}
            json.dump(meta, open(meta_path, "w"), indent=1)
    finally:
        sh("git -C %s worktree remove --force %s" % (REPO, wt))
        shutil.rmtree(wt, ignore_errors=True)
        sh("git -C %s worktree prune" % REPO)


if __name__ == "__main__":
    ids = sys.argv[2:] or sorted(os.listdir(SEEDED))
    if sys.argv[1] == "confirm":
        confirm(ids)
    elif sys.argv[1] == "run":
        run(ids)
