// D7 (C05): binary AIGER Parser::new computed (input_count + 1) * 2; with 64-bit literals the header
// "aig 9223372036854775807 9223372036854775807 0 0 0" overflowed (panic in dev builds).
// Place in flussab-aiger/tests/.
#[test]
fn input_only_header_with_maximal_count() {
    let input: &[u8] = b"aig 9223372036854775807 9223372036854775807 0 0 0\n";
    let r = flussab_aiger::binary::Parser::<u64>::from_read(input, Default::default());
    assert!(r.is_ok());
}
