// D6 (C05): Parser::parse pre-allocated from the counts the header merely declares: a 40 byte
// input made it panic with "capacity overflow" (or try to allocate gigabytes) before reading a
// single entry. Found by reading; the allocation is outside what the solver checks can encode
// (symbolic allocation sizes exhaust CBMC), see DESIGN.md.
// Place in flussab-aiger/tests/.
use flussab_aiger::{ascii, binary};

#[test]
fn huge_declared_output_count_is_an_error_not_a_panic() {
    let input: &[u8] = b"aag 0 0 0 18446744073709551615 0\n";
    let r = ascii::Parser::<u32>::from_read(input, Default::default()).unwrap().parse();
    assert!(r.is_err()); // "expected output literal, found end of file"
    let input: &[u8] = b"aig 0 0 0 18446744073709551615 0\n";
    let r = binary::Parser::<u32>::from_read(input, Default::default()).unwrap().parse();
    assert!(r.is_err());
}

#[test]
fn huge_declared_justice_count_does_not_allocate_up_front() {
    let input: &[u8] = b"aag 0 0 0 0 0 0 0 1152921504606846976\n";
    let r = ascii::Parser::<u32>::from_read(input, Default::default()).unwrap().parse();
    assert!(r.is_err());
}
