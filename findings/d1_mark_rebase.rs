// D1 (C02/C08/C01): the mark is not rebased when request_more realigns the buffer.
// Public-API demonstration; place in flussab/examples/ and `cargo run --example d1_mark_rebase`.
// Before the fix: mark() jumps from 3 to 6 although nothing touched it. After: stays 3.
use flussab::DeferredReader;

fn main() {
    let data = b"0123456789";
    let mut r = DeferredReader::from_read(&data[..]);
    r.set_chunk_size(1);
    r.request(3);
    r.advance(3); // cursor is now more than 2 chunks into the buffer
    r.set_mark(); // mark = absolute offset 3
    assert_eq!(r.mark(), 3);
    r.request(1); // refill -> realign
    assert_eq!(r.position(), 3);
    assert_eq!(r.mark(), 3, "mark must keep designating absolute offset 3 across a refill");
    println!("ok");
}
