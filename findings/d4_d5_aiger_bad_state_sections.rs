// D4 (C05/C03/C06): next_symbol used `latch_count - 1` as index limit for b/c/j/f symbols:
//   underflow panic when there are no latches, wrong limit otherwise.
// D5 (C03): Header::parse limited the B C J F counts by the remaining variable count, so files with
//   more bad-state properties than spare variables (which the crate's own writer produces) were
//   rejected.
// Place in flussab-aiger/tests/.
use flussab_aiger::ascii::Parser;

#[test]
fn d4_bad_state_symbol_without_latches() {
    // 1 input, 0 latches, 0 outputs, 0 gates, 1 bad state property with a symbol
    let input: &[u8] = b"aag 2 1 0 0 0 1\n2\n2\nb0 my_property\n"; // M=2 leaves a spare variable so that D5 does not mask D4
    let aig = Parser::<u32>::from_read(input, Default::default()).unwrap().parse().unwrap();
    assert_eq!(aig.bad_state_properties, vec![2]);
    assert_eq!(aig.symbols.len(), 1);
}

#[test]
fn d5_more_bad_state_properties_than_spare_variables() {
    // M = 1 = I, so no variable is left over, but two bad state properties are perfectly legal
    let input: &[u8] = b"aag 1 1 0 0 0 2\n2\n2\n3\n";
    let aig = Parser::<u32>::from_read(input, Default::default()).unwrap().parse().unwrap();
    assert_eq!(aig.bad_state_properties, vec![2, 3]);
}
