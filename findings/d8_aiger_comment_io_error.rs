// D8 (C04): flussab-aiger's remaining_file_content (the comment section after "c\n") accepted the
// delivered prefix as the complete comment when the source FAILED, as long as the prefix happened
// to end in a newline: Parser::parse returned Ok(aig) instead of the I/O error.
// Place in flussab-aiger/tests/ and run `cargo test --offline -p flussab-aiger --test d8_aiger_comment_io_error`.
use std::io::{self, Read};

struct FailAfter<'a>(&'a [u8]);
impl Read for FailAfter<'_> {
    fn read(&mut self, out: &mut [u8]) -> io::Result<usize> {
        if self.0.is_empty() {
            return Err(io::Error::new(io::ErrorKind::Other, "disk on fire"));
        }
        let n = out.len().min(self.0.len());
        out[..n].copy_from_slice(&self.0[..n]);
        self.0 = &self.0[n..];
        Ok(n)
    }
}

#[test]
fn failing_source_in_comment_section_is_an_io_error() {
    let src = FailAfter(b"aag 0 0 0 0 0\nc\nfirst comment line\n");
    let parser = flussab_aiger::ascii::Parser::<u32>::from_read(src, Default::default()).unwrap();
    match parser.parse() {
        Err(e) => assert!(matches!(*e, flussab_aiger::InnerParseError::IoError(_)), "got {e:?}"),
        Ok(aig) => panic!("truncated input reported as completely parsed: comment {:?}", aig.comment),
    }
}
