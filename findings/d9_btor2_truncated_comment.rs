// D9 (C04): a BTOR2 comment that ends where a FAILING source stopped delivering was handed out as
// a complete item (Line::Comment / node comment) before the I/O error surfaced; the item differs
// from the one a fault-free run returns at that index.
// Place in flussab-btor2/tests/.
use std::io::{self, Read};

struct FailAfter<'a>(&'a [u8]);
impl Read for FailAfter<'_> {
    fn read(&mut self, out: &mut [u8]) -> io::Result<usize> {
        if self.0.is_empty() {
            return Err(io::Error::new(io::ErrorKind::Other, "disk on fire"));
        }
        let n = out.len().min(self.0.len());
        out[..n].copy_from_slice(&self.0[..n]);
        self.0 = &self.0[n..];
        Ok(n)
    }
}

#[test]
fn comment_cut_short_by_a_failing_source_is_not_an_item() {
    // the full input would be "; a long comment\n"; the source fails after "; a lo"
    let mut p = flussab_btor2::Parser::from_read(FailAfter(b"; a lo"), Default::default()).unwrap();
    match p.next_line() {
        Err(e) => assert!(matches!(*e, flussab_btor2::InnerParseError::IoError(_)), "{e:?}"),
        Ok(item) => panic!("truncated comment handed out as an item: {item:?}"),
    }
}
