// D10 (C03): DecimalConst::try_from used is_ascii_hexdigit, so constants like "1a" could be built
// through the public validating constructor; written as `constd`, the parser rejects them.
// Place in flussab-btor2/tests/.
use flussab_btor2::btor2::DecimalConst;
#[test]
fn decimal_const_rejects_hex_digits() {
    assert!(DecimalConst::try_from("12").is_ok());
    assert!(DecimalConst::try_from("-12").is_ok());
    assert!(DecimalConst::try_from("1a").is_err());
}
