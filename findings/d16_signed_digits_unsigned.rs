// D16 (C13/C05): text::signed_ascii_digits::<u8> on "-5" computed `0 - 5` with a plain subtraction:
// panic "attempt to subtract with overflow" in dev builds, Some(251) in release builds, while
// signed_ascii_digits_multi::<u8> returns None. After the fix (97b6a96) both return (None, 2).
// Place in flussab/examples/ and run in dev and --release.
use flussab::{text, DeferredReader};

fn main() {
    let mut r = DeferredReader::from_read(&b"-5 "[..]);
    let simple = text::signed_ascii_digits::<u8>(&mut r, 0);
    let mut r2 = DeferredReader::from_read(&b"-5 "[..]);
    let multi = text::signed_ascii_digits_multi::<u8>(&mut r2, 0);
    assert_eq!(simple, (None, 2));
    assert_eq!(simple, multi);
    println!("ok");
}
