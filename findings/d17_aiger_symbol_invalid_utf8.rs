// D17 (C05/C08): an AIGER symbol name that is not valid UTF-8. remaining_line_content moved the
// line start to the NEXT line before validating the name, then reported the error at a position
// on the current line: `position - line_start` underflows -> panic "attempt to subtract with
// overflow" in dev builds, a column near usize::MAX in release builds.
// Place in flussab-aiger/tests/ and run in dev and --release.
#[test]
fn invalid_utf8_in_symbol_name_is_a_located_syntax_error() {
    let input: &[u8] = b"aag 1 1 0 0 0\n2\ni0 ab\xffcd\n";
    let parser = flussab_aiger::ascii::Parser::<u32>::from_read(input, Default::default()).unwrap();
    match parser.parse() {
        Ok(_) => panic!("accepted"),
        Err(e) => match *e {
            flussab_aiger::InnerParseError::SyntaxError(ref se) => {
                assert_eq!(se.location.line, 3, "{se}");
                assert_eq!(se.location.column, 6, "{se}"); // the 0xff byte: "i0 ab" is 5 bytes
            }
            ref other => panic!("unexpected error {other:?}"),
        },
    }
}
