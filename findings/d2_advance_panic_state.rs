// D2 (C14): advance(n) with n > buf_len() stores the wrapped length before it panics.
// After the (documented) panic is caught, buf_len() reports ~usize::MAX and buf() slices out of
// bounds (debug assertion in dev builds, undefined behaviour in release builds).
// Place in flussab/examples/ and `cargo run --example d2_advance_panic_state`.
use flussab::DeferredReader;
use std::panic::{catch_unwind, AssertUnwindSafe};

fn main() {
    let data = b"abc";
    let mut r = DeferredReader::from_read(&data[..]);
    r.request(3);
    assert_eq!(r.buf_len(), 3);
    let res = catch_unwind(AssertUnwindSafe(|| r.advance(4)));
    assert!(res.is_err(), "advance past the buffered data must panic");
    assert_eq!(r.buf_len(), 3, "after the caught panic the reader must still expose 3 bytes");
    assert_eq!(r.buf(), b"abc");
    println!("ok");
}
