// D18 (C03, C05): binary AIGER Writer::write_header computed (input_count + 1) * 2 unchecked; for the
// (well-formed, input-only) header "aig 9223372036854775807 9223372036854775807 0 0 0" with 64-bit
// literals the WRITER panicked in dev builds (the parser was repaired as D7). The header round trip
// must be the identity. Place in flussab-aiger/tests/.
use flussab::DeferredWriter;
use flussab_aiger::binary::{Header, Parser, Writer};

#[test]
fn writer_accepts_input_only_header_with_maximal_count() {
    let text: &[u8] = b"aig 9223372036854775807 9223372036854775807 0 0 0\n";
    let parser = Parser::<u64>::from_read(text, Default::default()).unwrap();
    let header: Header = parser.header().clone();
    let mut out = vec![];
    {
        let mut w = Writer::<u64>::new(DeferredWriter::from_write(&mut out));
        w.write_header(&header);
        w.flush_defer_err();
        w.check_io_error().unwrap();
    }
    assert_eq!(out, text);
}
