// D3 (C05/C08): flussab-btor2 reports a number that exceeds u64 (or has leading zeros) at
// reader.mark(), but nothing in the BTOR2 tokenizer ever set the mark: on any line but the first
// `mark - line_start` underflows -> panic "attempt to subtract with overflow" (dev) or a column
// near usize::MAX (release); on the first line the column is always 1.
// Place in flussab-btor2/tests/ and run in dev and --release.
#[test]
fn oversized_node_id_is_a_located_syntax_error() {
    let input: &[u8] = b"1 sort bitvec 1\n2 input 99999999999999999999\n";
    let mut p = flussab_btor2::Parser::from_read(input, Default::default()).unwrap();
    assert!(p.next_line().unwrap().is_some());
    match p.next_line() {
        Ok(_) => panic!("accepted"),
        Err(e) => match *e {
            flussab_btor2::InnerParseError::SyntaxError(ref se) => {
                assert_eq!(se.location.line, 2, "{se}");
                assert_eq!(se.location.column, 9, "{se}");
            }
            ref other => panic!("unexpected error {other:?}"),
        },
    }
}
