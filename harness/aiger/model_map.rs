// Model of the hash maps used by flussab-aiger/src/aig.rs (zwohash::HashMap and
// std::collections::hash_map::Entry) for the C12 harnesses: an association list with linear scan
// and a small fixed capacity. Hashing a symbolic key is what makes the real map intractable for
// CBMC; the map's CONTRACT (a finite partial function from keys to values) is all that
// Renumber relies on. The runner retargets the two `use` lines of aig.rs to this module in the
// scratch copy (cfg(kani) only exists there).

pub const MAPCAP: usize = 6;

pub struct HashMap<K, V> {
    keys: [Option<K>; MAPCAP],
    vals: [Option<V>; MAPCAP],
    n: usize,
}

impl<K: Copy + Eq, V: Copy> Default for HashMap<K, V> {
    fn default() -> Self {
        HashMap { keys: [None; MAPCAP], vals: [None; MAPCAP], n: 0 }
    }
}

impl<K: Copy + Eq + std::fmt::Debug, V: Copy + std::fmt::Debug> std::fmt::Debug for HashMap<K, V> {
    fn fmt(&self, _f: &mut std::fmt::Formatter<'_>) -> std::fmt::Result {
        Ok(())
    }
}

impl<K: Copy + Eq, V: Copy> HashMap<K, V> {
    fn find(&self, k: &K) -> Option<usize> {
        let mut i = 0;
        while i < MAPCAP {
            if i < self.n && self.keys[i] == Some(*k) {
                return Some(i);
            }
            i += 1;
        }
        None
    }
    pub fn len(&self) -> usize {
        self.n
    }
    pub fn is_empty(&self) -> bool {
        self.n == 0
    }
    pub fn contains_key(&self, k: &K) -> bool {
        self.find(k).is_some()
    }
    pub fn get(&self, k: &K) -> Option<&V> {
        match self.find(k) {
            Some(i) => self.vals[i].as_ref(),
            None => None,
        }
    }
    pub fn insert(&mut self, k: K, v: V) -> Option<V> {
        match self.find(&k) {
            Some(i) => self.vals[i].replace(v),
            None => {
                // harness bound: circuits small enough for the model's capacity
                kani::assume(self.n < MAPCAP);
                self.keys[self.n] = Some(k);
                self.vals[self.n] = Some(v);
                self.n += 1;
                None
            }
        }
    }
    pub fn entry(&mut self, k: K) -> hash_map::Entry<'_, K, V> {
        match self.find(&k) {
            Some(i) => hash_map::Entry::Occupied(hash_map::OccupiedEntry { map: self, i }),
            None => hash_map::Entry::Vacant(hash_map::VacantEntry { map: self, k }),
        }
    }
}

pub mod hash_map {
    use super::HashMap;
    pub enum Entry<'a, K, V> {
        Occupied(OccupiedEntry<'a, K, V>),
        Vacant(VacantEntry<'a, K, V>),
    }
    pub struct OccupiedEntry<'a, K, V> {
        pub(super) map: &'a mut HashMap<K, V>,
        pub(super) i: usize,
    }
    pub struct VacantEntry<'a, K, V> {
        pub(super) map: &'a mut HashMap<K, V>,
        pub(super) k: K,
    }
    impl<'a, K: Copy + Eq, V: Copy> OccupiedEntry<'a, K, V> {
        pub fn get(&self) -> &V {
            self.map.vals[self.i].as_ref().unwrap()
        }
    }
    impl<'a, K: Copy + Eq, V: Copy> VacantEntry<'a, K, V> {
        pub fn insert(self, v: V) {
            self.map.insert(self.k, v);
        }
    }
}
