// C12, bounded instance the solver can reach: the REAL `Renumber::renumber_aig` (with `lit_defs`,
// `initialize`, `transfer`, `LitMap`) on every GATE-FREE and-inverter graph with two inputs, one
// latch, one output and one bad-state literal, all literals arbitrary (so clashes, constants and
// undefined variables occur), for every combination of the options. Graphs with and gates are
// out of reach (see DESIGN.md, C12). The hash maps are replaced by the association-list model
// (model_map.rs). Included into a scratch copy of flussab-aiger/src/aig.rs.

use super::*;

type L = u8;

fn any_lit(max_code: usize) -> L {
    let c: usize = kani::any();
    kani::assume(c <= max_code);
    L::from_code(c)
}

fn var(l: L) -> usize {
    l.code() >> 1
}

#[kani::proof]
pub fn renumber_gate_free() {
    const MAXC: usize = 9; // variables 0 (constant) .. 4
    let i0 = any_lit(MAXC);
    let i1 = any_lit(MAXC);
    let st = any_lit(MAXC);
    let next = any_lit(MAXC);
    let out = any_lit(MAXC);
    let bad = any_lit(MAXC);
    let init: Option<bool> = kani::any();
    let aig = Aig::<L> {
        max_var_index: 4,
        inputs: vec![i0, i1],
        latches: vec![Latch { state: st, next_state: next, initialization: init }],
        outputs: vec![out],
        bad_state_properties: vec![bad],
        ..Aig::default()
    };
    let config = RenumberConfig::default().trim(kani::any()).structural_hash(kani::any()).const_fold(kani::any());
    // what the graph says
    let inputs_clash = var(i0) == 0 || var(i1) == 0 || var(i0) == var(i1);
    let latch_clash = var(st) == 0 || var(st) == var(i0) || var(st) == var(i1);
    let defined = |l: L| var(l) == 0 || var(l) == var(i0) || var(l) == var(i1) || var(l) == var(st);
    let all_defined = defined(next) && defined(out) && defined(bad);
    // values of the three variables
    let x0: bool = kani::any();
    let x1: bool = kani::any();
    let xs: bool = kani::any();
    let eval_orig = |l: L| -> bool {
        let v = if var(l) == 0 {
            false
        } else if var(l) == var(i0) {
            x0 ^ (i0.code() & 1 == 1)
        } else if var(l) == var(i1) {
            x1 ^ (i1.code() & 1 == 1)
        } else {
            xs ^ (st.code() & 1 == 1)
        };
        v ^ (l.code() & 1 == 1)
    };
    let eval_new = |l: L| -> bool {
        let v = match var(l) {
            0 => false,
            1 => x0,
            2 => x1,
            _ => xs,
        };
        v ^ (l.code() & 1 == 1)
    };
    match Renumber::renumber_aig(config, &aig) {
        Ok((ord, ren)) => {
            assert!(!inputs_clash, "doubly defined input literal accepted");
            assert!(all_defined, "undefined literal accepted");
            if latch_clash {
                // D11 (recorded finding): latch state literals are not part of the redefinition check
                assert!(false, "latch state literal redefines a constant or an input and is accepted");
            } else {
                // inputs, then latches, numbered consecutively
                assert!(ord.input_count == 2 && ord.latches.len() == 1 && ord.and_gates.is_empty());
                assert!(ord.max_var_index == 3);
                let m = ren.lit_map();
                assert!(var(m.get(i0).unwrap()) == 1 && var(m.get(i1).unwrap()) == 2 && var(m.get(st).unwrap()) == 3);
                // every literal of the result computes the same function of inputs and latch state
                assert!(eval_new(m.get(i0).unwrap()) == eval_orig(i0));
                assert!(eval_new(m.get(st).unwrap()) == eval_orig(st));
                assert!(eval_new(ord.latches[0].next_state) == eval_orig(next), "latch next-state function changed");
                assert!(ord.latches[0].initialization == init);
                assert!(ord.outputs.len() == 1 && eval_new(ord.outputs[0]) == eval_orig(out), "output function changed");
                assert!(ord.bad_state_properties.len() == 1 && eval_new(ord.bad_state_properties[0]) == eval_orig(bad), "bad-state function changed");
                // the literal map sends each original literal to an equivalent one (both polarities)
                let probe = any_lit(MAXC);
                if defined(probe) {
                    let p = m.get(probe).unwrap();
                    assert!(var(p) <= 3 && eval_new(p) == eval_orig(probe), "literal map entry not equivalent");
                } else {
                    assert!(m.get(probe).is_none());
                }
                kani::cover!(out.code() & 1 == 1 && var(out) == var(st), "negated latch output");
                kani::cover!(var(next) == 0, "constant next state");
            }
            std::mem::forget(ord);
            std::mem::forget(ren);
        }
        Err(e) => match e {
            AigStructureError::LitAlreadyDefined { .. } => assert!(inputs_clash || latch_clash, "redefinition reported for distinct literals"),
            AigStructureError::LitNotDefined { .. } => assert!(!all_defined, "undefined literal reported although all are defined"),
            AigStructureError::FoundCycle { .. } => assert!(false, "cycle reported in a gate-free graph"),
        },
    }
    std::mem::forget(aig);
}
