// C12 (bounded): the REAL `Renumber::renumber_aig` / `transfer` / `lit_defs` / `LitMap` on every
// and-inverter graph with one input and one and gate whose two gate inputs and one output literal
// are arbitrary literals over {constant, input, gate, (undefined variable)}, for every
// combination of the trim / structural_hash / const_fold options. The hash maps are replaced by an
// association-list model (model_map.rs). Included into a scratch copy of flussab-aiger/src/aig.rs.

use super::*;

type L = u8;

fn any_lit(max_code: usize) -> L {
    let c: usize = kani::any();
    kani::assume(c <= max_code);
    L::from_code(c)
}

/// Value of literal `l` in the ORIGINAL graph: variable 0 = constant false, variable 1 = the
/// input (literal 2), variable 2 = the gate (literal 4) = a & b. `None` if it depends on an
/// undefined variable or on the gate itself (cycle).
fn eval_orig(l: L, a: L, b: L, x: bool, through_gate: bool) -> Option<bool> {
    let code = l.code();
    let pol = code & 1 == 1;
    let v = match code >> 1 {
        0 => false,
        1 => x,
        2 => {
            if through_gate {
                return None; // cycle
            }
            let va = eval_orig(a, a, b, x, true)?;
            let vb = eval_orig(b, a, b, x, true)?;
            va && vb
        }
        _ => return None, // undefined variable
    };
    Some(v ^ pol)
}

/// Value of literal `l` in the ORDERED graph (input = variable 1, gate i = variable 2 + i, inputs
/// of a gate numbered below it), gates evaluated in order.
fn eval_ordered(l: L, gates: &[OrderedAndGate<L>], x: bool) -> bool {
    let mut val = [false; 6];
    val[1] = x;
    let mut i = 0;
    while i < gates.len() && i < 3 {
        let g = gates[i];
        let v0 = val[(g.inputs[0].code() >> 1) % 6] ^ (g.inputs[0].code() & 1 == 1);
        let v1 = val[(g.inputs[1].code() >> 1) % 6] ^ (g.inputs[1].code() & 1 == 1);
        val[2 + i] = v0 && v1;
        i += 1;
    }
    val[(l.code() >> 1) % 6] ^ (l.code() & 1 == 1)
}

fn run(max_code: usize) {
    let a = any_lit(max_code);
    let b = any_lit(max_code);
    let o = any_lit(max_code);
    let aig = Aig::<L> {
        max_var_index: 2,
        inputs: vec![L::from_code(2)],
        and_gates: vec![AndGate { inputs: [a, b], output: L::from_code(4) }],
        outputs: vec![o],
        ..Aig::default()
    };
    let config = RenumberConfig::default().trim(kani::any()).structural_hash(kani::any()).const_fold(kani::any());
    let trim = config.trim;
    let x: bool = kani::any();
    // what the original graph says
    let gate_reached = !trim || (o.code() >> 1) == 2;
    let self_ref = (a.code() >> 1) == 2 || (b.code() >> 1) == 2;
    let undef = |l: L| (l.code() >> 1) > 2;
    let undefined_reached = undef(o) || (gate_reached && (undef(a) || undef(b)));
    match Renumber::renumber_aig(config, &aig) {
        Ok((ord, ren)) => {
            // a graph with a cycle or an undefined literal never yields a circuit
            assert!(!(gate_reached && self_ref), "combinational cycle accepted");
            assert!(!undefined_reached, "undefined literal accepted");
            // shape: inputs first, then gates, consecutively; larger input first, both below the gate
            assert!(ord.input_count == 1 && ord.latches.is_empty());
            let n = ord.and_gates.len();
            assert!(n <= 1 && ord.max_var_index == 1 + n);
            if n == 1 {
                let g = ord.and_gates[0];
                assert!(g.inputs[0].code() >= g.inputs[1].code(), "gate inputs not ordered");
                assert!(g.inputs[0].code() < 4, "gate input not numbered below the gate");
            }
            // the output computes the same function of the input
            assert!(ord.outputs.len() == 1);
            let want = eval_orig(o, a, b, x, false).unwrap();
            assert!(eval_ordered(ord.outputs[0], &ord.and_gates, x) == want, "output function changed by renumbering");
            // the literal map sends every transferred literal to an equivalent one
            let probe = any_lit(5);
            if let Some(m) = ren.lit_map().get(probe) {
                if let Some(w) = eval_orig(probe, a, b, x, false) {
                    assert!((m.code() >> 1) <= 1 + n, "literal map points outside the new circuit");
                    assert!(eval_ordered(m, &ord.and_gates, x) == w, "literal map entry not equivalent");
                }
            }
            kani::cover!(n == 1, "gate kept");
            kani::cover!(n == 0 && (o.code() >> 1) == 2, "gate folded away");
            kani::cover!(n == 0 && trim, "gate trimmed");
            std::mem::forget(ord);
            std::mem::forget(ren);
        }
        Err(e) => {
            match e {
                AigStructureError::FoundCycle { .. } => assert!(gate_reached && self_ref, "cycle reported for an acyclic graph"),
                AigStructureError::LitNotDefined { .. } => assert!(undefined_reached, "undefined literal reported although all are defined"),
                AigStructureError::LitAlreadyDefined { .. } => assert!(false, "no literal is defined twice here"),
            }
        }
    }
    std::mem::forget(aig);
}

#[kani::proof]
pub fn renumber_one_gate() {
    run(5);
}

#[kani::proof]
pub fn renumber_one_gate_undefined() {
    run(7);
}
