// T0 harnesses for flussab-aiger's private token layer on the reader model R.
// Included into a scratch copy of flussab-aiger/src/token.rs as `mod verif_token`.

use super::*;
use crate::error::InnerParseError;

include!("@VERIF@/harness/common/prelude.rs");

fn fmt_stub(_args: std::fmt::Arguments<'_>) -> String {
    String::new()
}

fn to_string_stub<T: std::fmt::Display + ?Sized>(_x: &T) -> String {
    String::new()
}

fn lossy_stub(_v: &[u8]) -> std::borrow::Cow<'_, str> {
    std::borrow::Cow::Borrowed("")
}

// UTF-8 validation of a digit string that only feeds an error message: outside every claim
fn utf8_stub(v: &[u8]) -> Result<&str, std::str::Utf8Error> {
    Ok(unsafe { std::str::from_utf8_unchecked(v) })
}

// ---------------------------------------------------------------------------------------------
// single-byte tokens

#[kani::proof]
pub fn space_and_newline_tokens() {
    let (mut lr, pre) = any_line_reader(Refill::Nondet);
    let s = pre.st.pos;
    let which: u8 = kani::any();
    if which == 0 {
        let r = out_of(space(&mut lr));
        match r {
            Out::Ok(()) => assert!(byte_at(&pre.st, s) == Some(b' ') && consumed(&lr, &pre) == 1),
            Out::Fall => assert!(byte_at(&pre.st, s) != Some(b' ') && consumed(&lr, &pre) == 0),
            _ => assert!(false),
        }
        check_line_tracking(&lr, &pre, false);
    } else {
        let r = out_of(newline(&mut lr));
        match r {
            Out::Ok(()) => {
                assert!(byte_at(&pre.st, s) == Some(b'\n') && consumed(&lr, &pre) == 1);
                // C09: the LF is consumed without looking at anything after it
                check_lookahead(&lr, &pre, s + 1);
            }
            Out::Fall => assert!(byte_at(&pre.st, s) != Some(b'\n') && consumed(&lr, &pre) == 0),
            _ => assert!(false),
        }
        check_line_tracking(&lr, &pre, false);
    }
    check_error_not_lost(&lr, &pre, false);
    std::mem::forget(lr);
}

#[kani::proof]
#[kani::stub(std::fmt::format, fmt_stub)]
#[kani::stub(std::string::String::from_utf8_lossy, lossy_stub)]
pub fn required_single_byte_tokens() {
    let (mut lr, pre) = any_line_reader(Refill::Nondet);
    let s = pre.st.pos;
    let which: u8 = kani::any();
    kani::assume(which < 3);
    let b0 = byte_at(&pre.st, s);
    let (r, accept) = match which {
        0 => (out_of_result(required_space(&mut lr).map(|_| false)), b0 == Some(b' ')),
        1 => (out_of_result(required_newline(&mut lr).map(|_| false)), b0 == Some(b'\n')),
        _ => (
            out_of_result(required_newline_or_space(&mut lr)),
            b0 == Some(b' ') || b0 == Some(b'\n'),
        ),
    };
    match r {
        Out::Ok(flag) => {
            assert!(accept && consumed(&lr, &pre) == 1);
            if which == 2 {
                assert!(flag == (b0 == Some(b' ')), "returns whether a space was found");
            }
            check_line_tracking(&lr, &pre, false);
            check_lookahead(&lr, &pre, s + 1);
            check_error_not_lost(&lr, &pre, false);
        }
        Out::Syntax(loc) => {
            assert!(!accept);
            check_loc_at(loc, &pre, s);
            check_error_not_lost(&lr, &pre, false);
        }
        Out::Io => {
            assert!(!accept);
            check_error_not_lost(&lr, &pre, true);
        }
        Out::Fall => assert!(false),
    }
    std::mem::forget(lr);
}

#[kani::proof]
pub fn fixed_tokens() {
    let (mut lr, pre) = any_line_reader(Refill::Nondet);
    let pat: [u8; 3] = kani::any();
    let plen: usize = kani::any();
    kani::assume(plen <= 3);
    // keywords never contain a line feed
    kani::assume(pat[0] != b'\n' && pat[1] != b'\n' && pat[2] != b'\n');
    let not_eol: bool = kani::any();
    let r = if not_eol {
        out_of(fixed_not_eol(&mut lr, &pat[..plen]))
    } else {
        out_of(fixed(&mut lr, &pat[..plen]))
    };
    let s = pre.st.pos;
    let mut k = 0;
    while k < plen && byte_at(&pre.st, s + k) == Some(pat[k]) {
        k += 1;
    }
    let present = plen > 0 && k == plen;
    let accept = present && !(not_eol && byte_at(&pre.st, s + plen) == Some(b'\n'));
    match r {
        Out::Ok(()) => assert!(accept && consumed(&lr, &pre) == plen),
        Out::Fall => assert!(!accept && consumed(&lr, &pre) == 0),
        _ => assert!(false),
    }
    check_line_tracking(&lr, &pre, false);
    check_error_not_lost(&lr, &pre, false);
    kani::cover!(not_eol && present && !accept, "keyword directly before the end of line is not taken");
    std::mem::forget(lr);
}

#[kani::proof]
pub fn eof_token() {
    let (mut lr, pre) = any_line_reader(Refill::Nondet);
    let r = out_of(eof(&mut lr));
    match r {
        Out::Ok(()) => {
            assert!(pre.st.pos == pre.st.len);
            assert!(!lr.reader.m_err_parked);
        }
        Out::Fall => assert!(pre.st.pos < pre.st.len || lr.reader.m_err_parked),
        _ => assert!(false),
    }
    assert!(consumed(&lr, &pre) == 0);
    check_error_not_lost(&lr, &pre, false);
    std::mem::forget(lr);
}

// ---------------------------------------------------------------------------------------------
// numbers

macro_rules! uint_harness {
    ($name:ident, $t:ty, $spec:expr) => {
        #[kani::proof]
        #[kani::stub(std::str::from_utf8, utf8_stub)]
        pub fn $name() {
            flussab::verif_use_spec($spec);
            let (mut lr, pre) = any_line_reader(Refill::Nondet);
            let r = uint::<$t>(&mut lr);
            let s = pre.st.pos;
            let (cnt, v, big) = ref_digits(&pre.st, s);
            let fits = !big && v <= <$t>::MAX as u128;
            let leading_zero = cnt >= 2 && pre.st.data[s] == b'0';
            match r {
                Fallthrough => {
                    assert!(cnt == 0);
                    assert!(consumed(&lr, &pre) == 0);
                }
                Res(Ok(x)) => {
                    assert!(cnt > 0 && fits && !leading_zero, "no leading zeros, representable");
                    assert!(x as u128 == v);
                    assert!(consumed(&lr, &pre) == cnt, "exactly the digits, nothing after them");
                    check_lookahead(&lr, &pre, s + cnt + 1);
                }
                Res(Err(txt)) => {
                    assert!(cnt > 0 && (!fits || leading_zero));
                    assert!(consumed(&lr, &pre) == 0);
                    std::mem::forget(txt);
                }
            }
            check_line_tracking(&lr, &pre, false);
            check_error_not_lost(&lr, &pre, false);
            std::mem::forget(lr);
        }
    };
}

uint_harness!(uint_u8, u8, true);
uint_harness!(uint_usize, usize, true);
uint_harness!(uint_u8_real, u8, false);
uint_harness!(uint_usize_real, usize, false);

/// reference decoder for the 7-bit group encoding: (bytes used, value) or an error class
/// 0 = ok, 1 = input ended inside the number, 2 = more than 8 bytes
fn ref_varint(st: &ModelState, s: usize) -> (u8, usize, usize) {
    let mut i = 0usize;
    let mut value: usize = 0;
    while i < 8 {
        match byte_at(st, s + i) {
            None => return (1, i, 0),
            Some(b) => {
                value |= ((b & 0x7f) as usize) << (7 * i);
                i += 1;
                if b & 0x80 == 0 {
                    return (0, i, value);
                }
            }
        }
    }
    (2, 8, 0)
}

#[kani::proof]
#[kani::stub(std::fmt::format, fmt_stub)]
#[kani::stub(std::string::String::from_utf8_lossy, lossy_stub)]
pub fn binary_uint_token() {
    let (mut lr, pre) = any_line_reader(Refill::Nondet);
    let r = out_of_result(binary_uint(&mut lr));
    let s = pre.st.pos;
    let (class, used, value) = ref_varint(&pre.st, s);
    match r {
        Out::Ok(x) => {
            assert!(class == 0);
            assert!(x == value, "7-bit groups, least significant first");
            assert!(consumed(&lr, &pre) == used);
            check_lookahead(&lr, &pre, s + used);
            check_error_not_lost(&lr, &pre, false);
        }
        Out::Syntax(loc) => {
            assert!(class != 0);
            check_loc_at(loc, &pre, s);
            check_error_not_lost(&lr, &pre, false);
        }
        Out::Io => {
            assert!(class != 0);
            check_error_not_lost(&lr, &pre, true);
        }
        Out::Fall => assert!(false),
    }
    kani::cover!(matches!(r, Out::Ok(_)) && used == 8, "eight byte encoding accepted");
    kani::cover!(class == 2, "over-long encoding rejected");
    kani::cover!(class == 1 && used >= 2, "truncated inside the number");
    std::mem::forget(lr);
}

#[kani::proof]
#[kani::stub(std::fmt::format, fmt_stub)]
#[kani::stub(std::string::String::from_utf8_lossy, lossy_stub)]
pub fn delta_code_token() {
    let (mut lr, pre) = any_line_reader(Refill::Nondet);
    let code: usize = kani::any();
    let r = out_of_result(delta_code(&mut lr, code, "x", "y"));
    let s = pre.st.pos;
    let (class, used, delta) = ref_varint(&pre.st, s);
    match r {
        Out::Ok(x) => {
            assert!(class == 0 && delta <= code, "a delta larger than the reference code is rejected");
            assert!(x == code - delta);
            assert!(consumed(&lr, &pre) == used);
        }
        Out::Syntax(loc) => {
            assert!(class != 0 || delta > code);
            check_loc_at(loc, &pre, s); // both at the cursor and via the mark: token start
        }
        Out::Io => assert!(class != 0 || delta > code),
        Out::Fall => assert!(false),
    }
    check_error_not_lost(&lr, &pre, r == Out::Io);
    kani::cover!(class == 0 && delta > code, "delta exceeds code");
    std::mem::forget(lr);
}

// ---------------------------------------------------------------------------------------------
// limited fields (header_field, lit, symbol_index)

macro_rules! limited_field {
    ($name:ident, $which:expr) => {
        #[kani::proof]
        #[kani::stub(std::fmt::format, fmt_stub)]
        #[kani::stub(std::string::String::from_utf8_lossy, lossy_stub)]
        #[kani::stub(std::str::from_utf8, utf8_stub)]
        #[kani::stub(std::string::ToString::to_string, to_string_stub)]
        pub fn $name() {
    flussab::verif_use_spec(true);
    let (mut lr, pre) = any_line_reader(Refill::Nondet);
    let limit: usize = kani::any();
    let which: u8 = $which;
    let assigning: bool = kani::any();
    let hard: bool = kani::any();
    let r = match which {
        0 => out_of_result(header_field(&mut lr, "f", limit, hard)),
        1 => out_of_result(lit(&mut lr, "l", limit, assigning)),
        _ => out_of_result(symbol_index(&mut lr, "s", limit)),
    };
    let s = pre.st.pos;
    let (cnt, v, _big) = ref_digits(&pre.st, s);
    let leading_zero = cnt >= 2 && pre.st.data[s] == b'0';
    let well_formed = cnt > 0 && !leading_zero;
    let in_limit = v <= limit as u128;
    let assign_ok = !(which == 1 && assigning) || (v != 0 && v % 2 == 0);
    let accept = well_formed && in_limit && assign_ok;
    match r {
        Out::Ok(x) => {
            assert!(accept, "accepted only within the limit (and even, non-zero when assigning)");
            assert!(x as u128 == v);
            assert!(consumed(&lr, &pre) == cnt);
            check_error_not_lost(&lr, &pre, false);
        }
        Out::Syntax(loc) => {
            assert!(!accept);
            check_loc_at(loc, &pre, s);
            check_error_not_lost(&lr, &pre, false);
        }
        Out::Io => {
            assert!(!accept);
            check_error_not_lost(&lr, &pre, true);
        }
        Out::Fall => assert!(false),
    }
    kani::cover!(which != 1 || (assigning && well_formed && in_limit && !assign_ok), "odd or zero literal rejected when assigning (lit only)");
    kani::cover!(well_formed && !in_limit, "above the limit rejected");
    kani::cover!(matches!(r, Out::Ok(_)) && v == limit as u128 && cnt >= 2, "exactly the limit accepted");
    std::mem::forget(lr);
}
    };
}

limited_field!(limited_header_field, 0);
limited_field!(limited_lit, 1);
limited_field!(limited_symbol_index, 2);

// ---------------------------------------------------------------------------------------------
// line and file content (symbol names, comment section)

fn after_lf_or_end(st: &ModelState, mut i: usize) -> (usize, bool) {
    while i < st.len && st.data[i] != b'\n' {
        i += 1;
    }
    (i, i < st.len)
}

#[kani::proof]
#[kani::stub(std::fmt::format, fmt_stub)]
#[kani::stub(std::string::String::from_utf8_lossy, lossy_stub)]
#[kani::stub(std::str::from_utf8, utf8_stub)] // exact for the ASCII content assumed below
pub fn remaining_line_content_ascii() {
    let (mut lr, pre) = any_line_reader(Refill::Nondet);
    let s = pre.st.pos;
    // stated bound: ASCII content (UTF-8 validation itself is std's; see remaining_line_content_utf8)
    let mut j = 0;
    while j < MODEL_N {
        kani::assume(pre.st.data[j] < 0x80);
        j += 1;
    }
    let (lf, found) = after_lf_or_end(&pre.st, s);
    let r = match remaining_line_content(&mut lr) {
        Ok(txt) => {
            let ok = txt.len() == lf - s;
            Out::Ok(ok)
        }
        Err(e) => {
            let (io, loc) = classify_err(e);
            if io {
                Out::Io
            } else {
                Out::Syntax(loc)
            }
        }
    };
    match r {
        Out::Ok(len_ok) => {
            assert!(found, "a name is only returned if its line is complete");
            assert!(len_ok, "the line content without the LF");
            assert!(consumed(&lr, &pre) == lf + 1 - s);
            check_line_tracking(&lr, &pre, false);
            // C09: nothing requested past the LF
            check_lookahead(&lr, &pre, lf + 1);
            check_error_not_lost(&lr, &pre, false);
        }
        Out::Syntax(loc) => {
            assert!(!found);
            // missing newline: reported at the end of input, on the same line
            check_loc_at(loc, &pre, pre.st.len);
            check_error_not_lost(&lr, &pre, false);
        }
        Out::Io => {
            assert!(!found);
            check_error_not_lost(&lr, &pre, true);
        }
        Out::Fall => assert!(false),
    }
    std::mem::forget(lr);
}

#[kani::proof]
#[kani::stub(std::fmt::format, fmt_stub)]
#[kani::stub(std::string::String::from_utf8_lossy, lossy_stub)]
#[kani::stub(std::str::from_utf8, utf8_stub)] // exact for the ASCII content assumed below
pub fn remaining_file_content_ascii() {
    let (mut lr, pre) = any_line_reader(Refill::Nondet);
    let s = pre.st.pos;
    let mut j = 0;
    while j < MODEL_N {
        kani::assume(pre.st.data[j] < 0x80);
        j += 1;
    }
    let total = pre.st.len - s;
    let ends_lf = total > 0 && pre.st.data[pre.st.len - 1] == b'\n';
    let r = match remaining_file_content(&mut lr) {
        Ok(txt) => Out::Ok(txt.len()),
        Err(e) => {
            let (io, loc) = classify_err(e);
            if io {
                Out::Io
            } else {
                Out::Syntax(loc)
            }
        }
    };
    match r {
        Out::Ok(n) => {
            assert!(total == 0 || ends_lf, "accepted only if empty or ending in a line feed");
            assert!(n == total.saturating_sub(1));
            assert!(consumed(&lr, &pre) == total);
            // C04: a comment section cut short by a failing source must not be accepted
            assert!(!lr.reader.m_err_parked, "comment accepted although the source failed");
        }
        Out::Syntax(loc) => {
            assert!(total > 0 && !ends_lf);
            // reported at the end of the content, on its last line
            let mut nl = 0;
            let mut last = s;
            let mut i = s;
            while i < pre.st.len {
                if pre.st.data[i] == b'\n' {
                    nl += 1;
                    last = i + 1;
                }
                i += 1;
            }
            assert!(loc.line == pre.line + nl);
            if nl > 0 {
                assert!(loc.column == pre.st.len - last + 1);
            } else {
                assert!(loc.column == pre.st.base + pre.st.len - pre.line_start + 1);
            }
            check_error_not_lost(&lr, &pre, false);
        }
        Out::Io => {
            check_error_not_lost(&lr, &pre, true);
        }
        Out::Fall => assert!(false),
    }
    kani::cover!(matches!(r, Out::Ok(_)) && total >= 3, "multi-byte comment accepted");
    kani::cover!(r == Out::Io, "failing source reported");
    std::mem::forget(lr);
}

/// Real UTF-8 validation (no stub), arbitrary bytes, small window: a name is returned only if it is
/// valid UTF-8 and its line is complete; otherwise a syntax (or I/O) error, never a panic.
#[kani::proof]
#[kani::stub(std::fmt::format, fmt_stub)]
#[kani::stub(std::string::String::from_utf8_lossy, lossy_stub)]
pub fn remaining_line_content_utf8() {
    let (mut lr, pre) = any_line_reader(Refill::All);
    let s = pre.st.pos;
    let (lf, found) = after_lf_or_end(&pre.st, s);
    let r = match remaining_line_content(&mut lr) {
        Ok(txt) => Out::Ok(txt.len()),
        Err(e) => {
            let (io, loc) = classify_err(e);
            if io {
                Out::Io
            } else {
                Out::Syntax(loc)
            }
        }
    };
    match r {
        Out::Ok(n) => {
            assert!(found && n == lf - s);
            assert!(std::str::from_utf8(&pre.st.data[s..lf]).is_ok());
        }
        Out::Syntax(loc) => {
            assert!(!found || std::str::from_utf8(&pre.st.data[s..lf]).is_err());
            assert!(loc.line == pre.line || (found && loc.line == pre.line + 1));
            assert!(loc.column >= 1);
        }
        Out::Io => {}
        Out::Fall => assert!(false),
    }
    kani::cover!(found && matches!(r, Out::Syntax(_)), "invalid UTF-8 in a name rejected");
    kani::cover!(matches!(r, Out::Ok(2)), "two byte name accepted");
    std::mem::forget(lr);
}

// ---------------------------------------------------------------------------------------------
// error builder

#[kani::proof]
#[kani::stub(std::fmt::format, fmt_stub)]
#[kani::stub(std::string::String::from_utf8_lossy, lossy_stub)]
pub fn unexpected_total() {
    let (mut lr, pre) = any_line_reader(Refill::Nondet);
    let e = unexpected(&mut lr, "something");
    let (io, loc) = classify_err(e);
    if io {
        check_error_not_lost(&lr, &pre, true);
    } else {
        check_loc_at(loc, &pre, pre.st.pos);
        assert!(!lr.reader.m_err_parked);
    }
    assert!(consumed(&lr, &pre) == 0);
    std::mem::forget(lr);
}

#[kani::proof]
#[kani::stub(std::str::from_utf8, utf8_stub)]
pub fn reach_aiger_token() {
    flussab::verif_use_spec(true);
    let (mut lr, pre) = any_line_reader(Refill::Nondet);
    let r = uint::<usize>(&mut lr);
    if let Res(Ok(x)) = r {
        if x == 120 && consumed(&lr, &pre) == 3 && lr.reader.m_refills >= 2 {
            assert!(false, "reachability witness");
        }
    }
    std::mem::forget(lr);
}
