// T2 harnesses for the AIGER parsers (ascii.rs or binary.rs; the runner substitutes @KIND@):
// Header::parse post-condition and limits, Parser::new arithmetic, next_symbol limits, and the
// pre-allocation in Parser::parse, from symbolic headers with the token layer stubbed.

use super::*;
use crate::token::verif_stub as st;
use flussab::{DeferredReader, Refill};

fn any_reader() -> LineReader<'static> {
    LineReader::new(DeferredReader::model_any(Refill::All))
}

/// Any header satisfying the post-condition that `header_parse_*` proves for Header::parse.
fn any_header<L: Lit>() -> Header {
    let h = Header {
        max_var_index: kani::any(),
        input_count: kani::any(),
        latch_count: kani::any(),
        output_count: kani::any(),
        and_gate_count: kani::any(),
        bad_state_property_count: kani::any(),
        invariant_constraint_count: kani::any(),
        justice_property_count: kani::any(),
        fairness_constraint_count: kani::any(),
    };
    kani::assume(h.max_var_index <= (L::MAX_CODE - 1) / 2);
    kani::assume(h.input_count <= h.max_var_index);
    kani::assume(h.latch_count <= h.max_var_index - h.input_count);
    kani::assume(h.and_gate_count <= h.max_var_index - h.input_count - h.latch_count);
    h
}

macro_rules! header_parse_harness {
    ($name:ident, $l:ty) => {
        #[kani::proof]
        pub fn $name() {
            let fuel: usize = kani::any();
            kani::assume(fuel <= 20);
            st::reset(fuel);
            let mut reader = any_reader();
            let r = Header::parse::<$l>(&mut reader);
            unsafe {
                match r {
                    Ok(h) => {
                        // C06: M <= (MAX_CODE-1)/2 and I + L + A <= M (no wrap-around)
                        assert!(h.max_var_index <= (<$l>::MAX_CODE - 1) / 2);
                        let sum = h.input_count as u128 + h.latch_count as u128 + h.and_gate_count as u128;
                        assert!(sum <= h.max_var_index as u128, "I + L + A <= M");
                        // the fields are what the tokens returned, in order M I L O A [B C J F]
                        assert!(st::HF_N >= 5 && st::HF_N <= 9);
                        assert!(h.max_var_index == st::HF_RET[0] && h.input_count == st::HF_RET[1]);
                        assert!(h.latch_count == st::HF_RET[2] && h.output_count == st::HF_RET[3]);
                        assert!(h.and_gate_count == st::HF_RET[4]);
                        assert!(h.bad_state_property_count == if st::HF_N > 5 { st::HF_RET[5] } else { 0 });
                        assert!(h.invariant_constraint_count == if st::HF_N > 6 { st::HF_RET[6] } else { 0 });
                        assert!(h.justice_property_count == if st::HF_N > 7 { st::HF_RET[7] } else { 0 });
                        assert!(h.fairness_constraint_count == if st::HF_N > 8 { st::HF_RET[8] } else { 0 });
                        // limits: the output count and the B C J F counts are not tied to the
                        // variable count (only I, L, A consume variables)
                        assert!(st::HF_LIMIT[3] == usize::MAX);
                        let mut i = 5;
                        while i < st::HF_N {
                            assert!(st::HF_LIMIT[i] == usize::MAX, "bad/constraint/justice/fairness counts are limited by the remaining variable count");
                            i += 1;
                        }
                        // C09: the header ends with its line end
                        assert!(st::NEWLINES_OK == 1 && st::CALLS_AFTER_NEWLINE == 0);
                        kani::cover!(st::HF_N == 9, "all nine fields");
                        kani::cover!(st::HF_N == 5, "five fields");
                        kani::cover!(st::HF_N == 7, "seven fields");
                    }
                    Err(e) => {
                        assert!(st::ERRS >= 1);
                        std::mem::forget(e);
                    }
                }
            }
            std::mem::forget(reader);
        }
    };
}

header_parse_harness!(header_parse_u8, u8);
header_parse_harness!(header_parse_u64, u64);

macro_rules! new_harness {
    ($name:ident, $l:ty) => {
        #[kani::proof]
        pub fn $name() {
            let fuel: usize = kani::any();
            kani::assume(fuel <= 20);
            st::reset(fuel);
            // C05: no arithmetic overflow for any header the header parser can return
            let r = Parser::<$l>::new(any_reader(), Config::default());
            match r {
                Ok(p) => {
                    assert!(p.max_lit == p.header.max_var_index * 2 + 1);
                    assert!(p.max_lit <= <$l>::MAX_CODE);
                    std::mem::forget(p);
                }
                Err(e) => std::mem::forget(e),
            }
        }
    };
}

new_harness!(new_u8, u8);
new_harness!(new_u64, u64);

macro_rules! next_symbol_harness {
    ($name:ident, $l:ty) => {
        #[kani::proof]
        pub fn $name() {
            let fuel: usize = kani::any();
            kani::assume(fuel <= 6);
            st::reset(fuel);
            let header = any_header::<$l>();
            let h = header.clone();
            let mut ps = ParseSymbols {
                parser: verif_make_parser::<$l>(any_reader(), header),
            };
            let r = match ps.next_symbol() {
                Ok(Some(sym)) => {
                    let t = sym.target;
                    std::mem::forget(sym);
                    Some(t)
                }
                Ok(None) => None,
                Err(e) => {
                    std::mem::forget(e);
                    None
                }
            };
            unsafe {
                if let Some(t) = r {
                    assert!(st::SI_N == 1);
                    // C06/C03: the index is below the count of ITS OWN section
                    let (idx, count) = match t {
                        SymbolTarget::Input(i) => (i, h.input_count),
                        SymbolTarget::Output(i) => (i, h.output_count),
                        SymbolTarget::Latch(i) => (i, h.latch_count),
                        SymbolTarget::BadStateProperty(i) => (i, h.bad_state_property_count),
                        SymbolTarget::InvariantConstraint(i) => (i, h.invariant_constraint_count),
                        SymbolTarget::JusticeProperty(i) => (i, h.justice_property_count),
                        SymbolTarget::FairnessConstraint(i) => (i, h.fairness_constraint_count),
                    };
                    assert!(idx == st::SI_RET);
                    assert!(count > 0 && st::SI_LIMIT == count - 1, "symbol index limit is the section's own count - 1");
                    assert!(idx < count);
                    // C09: the symbol is handed out right after its line
                    assert!(st::CALLS_AFTER_NEWLINE == 0);
                    kani::cover!(matches!(t, SymbolTarget::BadStateProperty(_)), "bad state symbol");
                    kani::cover!(matches!(t, SymbolTarget::FairnessConstraint(_)), "fairness symbol");
                    kani::cover!(matches!(t, SymbolTarget::Input(_)), "input symbol");
                }
            }
            std::mem::forget(ps);
        }
    };
}

next_symbol_harness!(next_symbol_u8, u8);
next_symbol_harness!(next_symbol_u64, u64);

// (A harness over Parser::parse's pre-allocation was tried and dropped: symbolic and even two-valued
// allocation sizes exhaust CBMC's memory; see DESIGN.md, C05 'outside'.)

#[kani::proof]
pub fn reach_aiger_parser() {
    st::reset(20);
    let mut reader = any_reader();
    let r = Header::parse::<u8>(&mut reader);
    unsafe {
        if let Ok(h) = &r {
            if st::HF_N == 9 && h.max_var_index == 100 && h.and_gate_count == 3 {
                assert!(false, "reachability witness");
            }
        }
    }
    std::mem::forget(r);
    std::mem::forget(reader);
}
