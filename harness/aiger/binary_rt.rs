// C03 entry-level round trips for the binary AIGER format: real writer function -> bytes -> real
// entry parser. Included into a scratch copy of flussab-aiger/src/binary.rs as `mod verif_rt`.

use super::*;
use crate::aig::{OrderedAndGate, OrderedLatch};
use flussab::{DeferredReader, DeferredWriter, Refill, MODEL_N};
use std::io;

static mut OUT: [u8; MODEL_N] = [0; MODEL_N];
static mut OUT_LEN: usize = 0;
static mut OUT_OVERFLOW: bool = false;

struct Cap;
impl io::Write for Cap {
    fn write(&mut self, b: &[u8]) -> io::Result<usize> {
        unsafe {
            let mut i = 0;
            while i < b.len() {
                if OUT_LEN < MODEL_N {
                    OUT[OUT_LEN] = b[i];
                    OUT_LEN += 1;
                } else {
                    OUT_OVERFLOW = true;
                }
                i += 1;
            }
        }
        Ok(b.len())
    }
    fn flush(&mut self) -> io::Result<()> {
        Ok(())
    }
}

fn fmt_stub(_args: std::fmt::Arguments<'_>) -> String {
    String::new()
}
fn to_string_stub<T: std::fmt::Display + ?Sized>(_x: &T) -> String {
    String::new()
}
fn lossy_stub(_v: &[u8]) -> std::borrow::Cow<'_, str> {
    std::borrow::Cow::Borrowed("")
}
fn utf8_stub(v: &[u8]) -> Result<&str, std::str::Utf8Error> {
    Ok(unsafe { std::str::from_utf8_unchecked(v) })
}

fn written_reader() -> LineReader<'static> {
    unsafe {
        assert!(!OUT_OVERFLOW);
        LineReader::new(DeferredReader::model_with(OUT, OUT_LEN, 0, Refill::Nondet))
    }
}

fn header_for(max_var_index: usize) -> Header {
    Header {
        max_var_index,
        input_count: 0,
        latch_count: 0,
        output_count: 0,
        and_gate_count: 0,
        bad_state_property_count: 0,
        invariant_constraint_count: 0,
        justice_property_count: 0,
        fairness_constraint_count: 0,
    }
}

/// and-gate: delta encoding in 7-bit groups vs. delta_code/binary_uint, every delta < 2^BITS
#[kani::proof]
#[kani::stub(std::fmt::format, fmt_stub)]
#[kani::stub(std::string::String::from_utf8_lossy, lossy_stub)]
pub fn rt_and_gate() {
    let code: usize = kani::any();
    kani::assume(code <= (1usize << RT_BITS) && code % 2 == 0);
    let c0: usize = kani::any();
    let c1: usize = kani::any();
    kani::assume(c0 <= code && c1 <= code);
    let mut w = Writer::<u64>::new(DeferredWriter::verif_with_capacity(Cap, 32));
    w.code = code;
    w.write_and_gate(OrderedAndGate { inputs: [c0 as u64, c1 as u64] });
    w.writer.flush_defer_err();
    assert!(w.code == code + 2);
    std::mem::forget(w);

    let mut parser = verif_make_parser::<u64>(written_reader(), header_for(usize::MAX / 4));
    parser.code = code;
    let mut pg = ParseAndGates { parser, ands_left: 1 };
    match pg.next_and_gate() {
        Ok(Some(g)) => {
            let hi = if c0 >= c1 { c0 } else { c1 };
            let lo = if c0 >= c1 { c1 } else { c0 };
            assert!(g.inputs[0] == hi as u64 && g.inputs[1] == lo as u64, "gate read back == gate written");
            assert!(pg.parser.reader.reader.m_pos == unsafe { OUT_LEN }, "the written bytes are consumed exactly");
            assert!(pg.parser.code == code + 2);
            kani::cover!(unsafe { OUT_LEN } >= 4, "multi-byte deltas");
            kani::cover!(code - hi == 128, "delta of exactly 128");
        }
        Ok(None) => assert!(false),
        Err(e) => {
            std::mem::forget(e);
            assert!(false, "the writer's output is rejected by the parser");
        }
    }
    std::mem::forget(pg);
}

/// a single number: write_binary_uint -> delta_code(binary_uint), every value < 2^RT_BITS
#[kani::proof]
#[kani::stub(std::fmt::format, fmt_stub)]
#[kani::stub(std::string::String::from_utf8_lossy, lossy_stub)]
pub fn rt_binary_uint() {
    let v: usize = kani::any();
    kani::assume(v < (1usize << RT_BITS));
    let mut w = Writer::<u64>::new(DeferredWriter::verif_with_capacity(Cap, 32));
    w.write_binary_uint(v);
    w.writer.flush_defer_err();
    std::mem::forget(w);
    let mut lr = unsafe {
        assert!(!OUT_OVERFLOW);
        LineReader::new(DeferredReader::model_with(OUT, OUT_LEN, 0, Refill::All))
    };
    match token::delta_code(&mut lr, usize::MAX, "", "") {
        Ok(x) => {
            assert!(usize::MAX - x == v, "number read back == number written");
            assert!(lr.reader.m_pos == unsafe { OUT_LEN }, "the written bytes are consumed exactly");
            kani::cover!(v == 128, "value 128 (continuation boundary)");
            kani::cover!(unsafe { OUT_LEN } == 3, "three byte encoding");
        }
        Err(e) => {
            std::mem::forget(e);
            assert!(false, "the writer's output is rejected by the parser");
        }
    }
    std::mem::forget(lr);
}

/// latch: reset omitted = 0, ' 1', or own literal = uninitialised
#[kani::proof]
#[kani::stub(std::fmt::format, fmt_stub)]
#[kani::stub(std::string::String::from_utf8_lossy, lossy_stub)]
#[kani::stub(std::str::from_utf8, utf8_stub)]
#[kani::stub(std::string::ToString::to_string, to_string_stub)]
pub fn rt_latch() {
    flussab::verif_use_spec(true);
    let code: usize = kani::any();
    kani::assume(code >= 2 && code <= 254 && code % 2 == 0);
    let next: u8 = kani::any();
    let init: Option<bool> = match kani::any::<u8>() % 3 {
        0 => None,
        1 => Some(false),
        _ => Some(true),
    };
    let mut w = Writer::<u8>::new(DeferredWriter::verif_with_capacity(Cap, 32));
    w.code = code;
    w.write_latch(OrderedLatch { next_state: next, initialization: init });
    w.writer.flush_defer_err();
    std::mem::forget(w);

    let mut parser = verif_make_parser::<u8>(written_reader(), header_for(127));
    parser.code = code;
    let mut pl = ParseLatches { parser, latches_left: 1 };
    match pl.next_latch() {
        Ok(Some(l)) => {
            assert!(l.next_state == next && l.initialization == init, "latch read back == latch written");
            assert!(pl.parser.reader.reader.m_pos == unsafe { OUT_LEN });
            assert!(pl.parser.code == code + 2);
            kani::cover!(init.is_none(), "uninitialised latch");
            kani::cover!(init == Some(true) && next >= 100, "three digit next state, reset 1");
        }
        Ok(None) => assert!(false),
        Err(e) => {
            std::mem::forget(e);
            assert!(false, "the writer's output is rejected by the parser");
        }
    }
    std::mem::forget(pl);
}

#[kani::proof]
pub fn reach_rt() {
    let mut w = Writer::<u64>::new(DeferredWriter::verif_with_capacity(Cap, 32));
    let v: usize = kani::any();
    kani::assume(v < (1usize << RT_BITS));
    w.write_binary_uint(v);
    w.writer.flush_defer_err();
    std::mem::forget(w);
    unsafe {
        if OUT_LEN == 3 && OUT[2] == 1 {
            assert!(false, "reachability witness");
        }
    }
}
