// Binary AIGER ("aig"), included into a scratch copy of flussab-aiger/src/binary.rs as `mod verif_b3`.
//
// (1) T2 section harnesses: each `next_*` section reader and each section transition of the REAL
//     parser from a symbolic parser state, token layer = nondeterministic contract stubs.
// (2) T3 round trips: the REAL writer functions fill the ghost token queue (flussab::verif_q), the
//     REAL parser control code reads it back through the script-mode token stubs; the parsed value
//     must equal the written one and the queue must be consumed exactly.

use super::*;
use crate::token::verif_stub as st;
use flussab::verif_q as q;
use flussab::{DeferredReader, Refill};

include!("@VERIF@/harness/common/alloc_stub.rs");

type L = u8;
const MAXL: usize = <L as Lit>::MAX_CODE;

fn any_reader() -> LineReader<'static> {
    LineReader::new(DeferredReader::model_any(Refill::All))
}

fn any_header() -> Header {
    let h = Header {
        max_var_index: kani::any(),
        input_count: kani::any(),
        latch_count: kani::any(),
        output_count: kani::any(),
        and_gate_count: kani::any(),
        bad_state_property_count: kani::any(),
        invariant_constraint_count: kani::any(),
        justice_property_count: kani::any(),
        fairness_constraint_count: kani::any(),
    };
    kani::assume(h.max_var_index <= (MAXL - 1) / 2);
    kani::assume(h.input_count <= h.max_var_index);
    kani::assume(h.latch_count <= h.max_var_index - h.input_count);
    kani::assume(h.and_gate_count <= h.max_var_index - h.input_count - h.latch_count);
    h
}

/// Parser state: `code` is the literal of the next latch / and gate: even, >= 2*(I+1), and (while
/// items are left) the literal of an existing variable.
fn any_parser() -> Parser<'static, L> {
    let h = any_header();
    let mut p = verif_make_parser::<L>(any_reader(), h);
    let code: usize = kani::any();
    kani::assume(code % 2 == 0 && code >= 2 * (p.header.input_count + 1) && code <= 2 * p.header.max_var_index + 2);
    p.code = code;
    p
}

fn small(n: usize) -> usize {
    let k: usize = kani::any();
    kani::assume(k <= n);
    k
}

fn fuel(n: usize) {
    let f: usize = kani::any();
    kani::assume(f <= n);
    st::reset(f);
}

// -------------------------------------------------------------------------------------------
// (1) sections, nondeterministic token layer

/// A section of single-literal lines: `left == 0` -> Ok(None) without touching the input;
/// otherwise exactly: lit(max_lit, assigning) newline, the item is the literal the token returned,
/// handed out right after the line end, `left` decreases by one.
macro_rules! single_lit_section {
    ($name:ident, $section:ident, $left:ident, $next:ident, $assigning:expr) => {
        #[kani::proof]
        pub fn $name() {
            fuel(3);
            let parser = any_parser();
            let max_lit = parser.max_lit;
            let left: usize = kani::any();
            let mut s = $section { parser, $left: left };
            let r = s.$next();
            unsafe {
                match r {
                    Ok(None) => {
                        assert!(left == 0 && st::CALLS == 0, "section ended before its declared count");
                    }
                    Ok(Some(l)) => {
                        assert!(left > 0, "item beyond the declared section size");
                        assert!(s.$left == left - 1);
                        assert!(st::LIT_N == 1 && st::LIT_OK == 1);
                        assert!(st::LIT_LIMIT[0] == max_lit && st::LIT_ASSIGN[0] == $assigning);
                        assert!(l.code() == st::LIT_RET[0], "literal changed on the way out");
                        assert!(st::NEWLINES_OK == 1 && st::CALLS_AFTER_NEWLINE == 0);
                    }
                    Err(e) => {
                        assert!(left > 0 && st::ERRS >= 1);
                        std::mem::forget(e);
                    }
                }
                kani::cover!(st::LIT_OK == 1 && st::NEWLINES_OK == 1, "item");
            }
            std::mem::forget(s);
        }
    };
}

single_lit_section!(sec_next_output, ParseOutputs, outputs_left, next_output, false);
single_lit_section!(sec_next_bad, ParseBadStateProperties, bad_left, next_bad_state_property, false);
single_lit_section!(sec_next_constraint, ParseInvariantConstraints, constraints_left, next_invariant_constraint, false);
single_lit_section!(sec_next_local_fairness, ParseJusticePropertyLocalFairnessConstraints, local_fairness_left, next_justice_property_local_fairness_constraint, false);
single_lit_section!(sec_next_fairness, ParseFairnessConstraints, fairness_left, next_fairness_constraint, false);

#[kani::proof]
pub fn sec_next_latch() {
    fuel(5);
    let parser = any_parser();
    let max_lit = parser.max_lit;
    let code = parser.code;
    let left: usize = kani::any();
    kani::assume(left <= parser.header.max_var_index + 1 && code + 2 * left <= 2 * parser.header.max_var_index + 2);
    let mut s = ParseLatches { parser, latches_left: left };
    let r = s.next_latch();
    unsafe {
        match r {
            Ok(None) => assert!(left == 0 && st::CALLS == 0 && s.parser.code == code),
            Ok(Some(latch)) => {
                assert!(left > 0 && s.latches_left == left - 1);
                assert!(st::LIT_N >= 1 && st::LIT_OK == st::LIT_N);
                assert!(!st::LIT_ASSIGN[0] && st::LIT_LIMIT[0] == max_lit);
                assert!(latch.next_state.code() == st::LIT_RET[0]);
                if st::LIT_N == 1 {
                    assert!(latch.initialization == Some(false));
                } else {
                    assert!(st::LIT_N == 2 && st::LIT_LIMIT[1] == max_lit && !st::LIT_ASSIGN[1]);
                    let c = st::LIT_RET[1];
                    // 0 / 1 / the latch's own (implicit) literal; anything else is an error
                    assert!(c < 2 || c == code, "invalid reset literal accepted");
                    let want = if c < 2 { Some(c != 0) } else { None };
                    assert!(latch.initialization == want);
                }
                // the implicit numbering advances by one variable per latch
                assert!(s.parser.code == code + 2);
                assert!(st::NEWLINES_OK == 1 && st::CALLS_AFTER_NEWLINE == 0);
                kani::cover!(latch.initialization.is_none(), "uninitialised latch");
                kani::cover!(latch.initialization == Some(true), "latch reset to 1");
                kani::cover!(st::LIT_N == 1, "latch without reset field");
            }
            Err(e) => {
                assert!(left > 0 && st::ERRS >= 1);
                std::mem::forget(e);
            }
        }
    }
    std::mem::forget(s);
}

#[kani::proof]
pub fn sec_next_and_gate() {
    fuel(3);
    let parser = any_parser();
    let code = parser.code;
    let left: usize = kani::any();
    // state invariant: every item still to come has a variable (code + 2*left <= 2*(M+1))
    kani::assume(left <= parser.header.max_var_index + 1 && code + 2 * left <= 2 * parser.header.max_var_index + 2);
    let mut s = ParseAndGates { parser, ands_left: left };
    let r = s.next_and_gate();
    unsafe {
        match r {
            Ok(None) => assert!(left == 0 && st::CALLS == 0 && s.parser.code == code),
            Ok(Some(g)) => {
                assert!(left > 0 && s.ands_left == left - 1);
                // first input: delta against the gate's own (implicit) literal; second input:
                // delta against the first input; so output > input0 >= input1 (C06, C12 order)
                assert!(st::DC_N == 2);
                assert!(st::DC_CODE[0] == code, "first delta is not relative to the gate's literal");
                assert!(st::DC_CODE[1] == st::DC_RET[0], "second delta is not relative to the first input");
                assert!(g.inputs[0].code() == st::DC_RET[0] && g.inputs[1].code() == st::DC_RET[1]);
                assert!(g.inputs[0].code() <= code && g.inputs[1].code() <= g.inputs[0].code());
                assert!(s.parser.code == code + 2);
                // binary and gates have no line end: handed out right after the second delta
            }
            Err(e) => {
                assert!(left > 0 && st::ERRS >= 1);
                std::mem::forget(e);
            }
        }
        kani::cover!(st::DC_N == 2 && st::ERRS == 0, "and gate");
    }
    std::mem::forget(s);
}

#[kani::proof]
pub fn sec_next_justice_size() {
    fuel(3);
    let parser = any_parser();
    let left: usize = kani::any();
    let total: usize = kani::any();
    let mut s = ParseJusticePropertySizes { parser, justice_left: left, total_local_fairness_count: total };
    let r = s.next_justice_property_size();
    unsafe {
        match r {
            Ok(None) => assert!(left == 0 && st::CALLS == 0),
            Ok(Some(n)) => {
                assert!(left > 0 && s.justice_left == left - 1);
                assert!(st::HF_N == 1 && n == st::HF_RET[0]);
                assert!(st::HF_LIMIT[0] == usize::MAX - total);
                assert!(s.total_local_fairness_count as u128 == total as u128 + n as u128);
                assert!(st::NEWLINES_OK == 1 && st::CALLS_AFTER_NEWLINE == 0);
            }
            Err(e) => {
                assert!(left > 0 && st::ERRS >= 1);
                std::mem::forget(e);
            }
        }
    }
    std::mem::forget(s);
}

/// Section transitions: the rest of the section is skipped (exactly `left` more items are read)
/// and the next section expects exactly the header's count (C06: section sizes = header counts).
macro_rules! transition {
    ($name:ident, $section:ident, $left:ident, $trans:ident, $lits_per_item:expr, $nextleft:ident, $expect:expr) => {
        #[kani::proof]
        pub fn $name() {
            fuel(6 * $lits_per_item);
            let parser = any_parser();
            let h = parser.header.clone();
            let left = small(2);
            let s = $section { parser, $left: left };
            let r = s.$trans();
            unsafe {
                match r {
                    Ok(n) => {
                        assert!(st::NEWLINES_OK == left, "section left before all its declared items were read");
                        assert!(st::LIT_OK >= left * $lits_per_item);
                        let f = $expect;
                        let expect: usize = f(&h);
                        assert!(n.$nextleft == expect, "next section does not expect the header's count");
                        assert!(n.parser.header.max_var_index == h.max_var_index);
                        kani::cover!(left == 2, "two items skipped");
                        std::mem::forget(n);
                    }
                    Err(e) => {
                        assert!(st::ERRS >= 1);
                        std::mem::forget(e);
                    }
                }
            }
        }
    };
}

transition!(tr_latches_to_outputs, ParseLatches, latches_left, outputs, 1, outputs_left, |h: &Header| h.output_count);
transition!(tr_outputs_to_bad, ParseOutputs, outputs_left, bad_state_properties, 1, bad_left, |h: &Header| h.bad_state_property_count);
transition!(tr_bad_to_constraints, ParseBadStateProperties, bad_left, invariant_constraints, 1, constraints_left, |h: &Header| h.invariant_constraint_count);
transition!(tr_constraints_to_justice, ParseInvariantConstraints, constraints_left, justice_properties, 1, justice_left, |h: &Header| h.justice_property_count);
transition!(tr_local_fairness_to_fairness, ParseJusticePropertyLocalFairnessConstraints, local_fairness_left, fairness_constraints, 1, fairness_left, |h: &Header| h.fairness_constraint_count);
transition!(tr_fairness_to_ands, ParseFairnessConstraints, fairness_left, and_gates, 1, ands_left, |h: &Header| h.and_gate_count);

#[kani::proof]
pub fn tr_parser_to_latches_and_justice_sizes() {
    fuel(5);
    let parser = any_parser();
    let h = parser.header.clone();
    match parser.latches() {
        Ok(s) => {
            assert!(s.latches_left == h.latch_count);
            std::mem::forget(s);
        }
        Err(e) => std::mem::forget(e),
    }
    let parser = any_parser();
    let left = small(2);
    let total: usize = kani::any();
    let s = ParseJusticePropertySizes { parser, justice_left: left, total_local_fairness_count: total };
    unsafe {
        match s.justice_property_local_fairness_constraints() {
            Ok(n) => {
                assert!(st::HF_N == left && st::NEWLINES_OK == left);
                let mut sum = total as u128;
                let mut i = 0;
                while i < left {
                    sum += st::HF_RET[i] as u128;
                    i += 1;
                }
                assert!(n.local_fairness_left as u128 == sum);
                std::mem::forget(n);
            }
            Err(e) => std::mem::forget(e),
        }
    }
}

#[kani::proof]
pub fn tr_ands_to_symbols() {
    fuel(5);
    let parser = any_parser();
    let code = parser.code;
    let left = small(2);
    kani::assume(code + 2 * left <= 2 * parser.header.max_var_index + 2);
    let s = ParseAndGates { parser, ands_left: left };
    unsafe {
        match s.symbols() {
            Ok(n) => {
                assert!(st::DC_N == 2 * left && n.parser.code == code + 2 * left);
                std::mem::forget(n);
            }
            Err(e) => std::mem::forget(e),
        }
    }
}

// -------------------------------------------------------------------------------------------
// (2) round trips through the token queue

fn capture_writer() -> Writer<'static, L> {
    q::start_capture();
    Writer::<L>::new(flussab::DeferredWriter::verif_with_capacity(std::io::sink(), 4))
}

fn rt_checks() {
    unsafe {
        assert!(!q::AMBIG, "two tokens written back to back would be read as one");
        assert!(!q::OVERFLOW);
    }
}

macro_rules! rt_header_harness {
    ($name:ident, $l:ty) => {
        #[kani::proof]
        pub fn $name() {
            let h = Header {
                max_var_index: kani::any(),
                input_count: kani::any(),
                latch_count: kani::any(),
                output_count: kani::any(),
                and_gate_count: kani::any(),
                bad_state_property_count: kani::any(),
                invariant_constraint_count: kani::any(),
                justice_property_count: kani::any(),
                fairness_constraint_count: kani::any(),
            };
            kani::assume(h.max_var_index <= (<$l as Lit>::MAX_CODE - 1) / 2);
            kani::assume(h.input_count <= h.max_var_index);
            kani::assume(h.latch_count <= h.max_var_index - h.input_count);
            kani::assume(h.and_gate_count <= h.max_var_index - h.input_count - h.latch_count);
            q::start_capture();
            let mut w = Writer::<$l>::new(flussab::DeferredWriter::verif_with_capacity(std::io::sink(), 4));
            w.write_header(&h);
            rt_checks();
            st::reset_script();
            let r = Parser::<$l>::new(any_reader(), Config::default());
            match r {
                Ok(parser) => {
                    let p = &parser.header;
                    assert!(p.max_var_index == h.max_var_index && p.input_count == h.input_count);
                    assert!(p.latch_count == h.latch_count && p.output_count == h.output_count);
                    assert!(p.and_gate_count == h.and_gate_count);
                    assert!(p.bad_state_property_count == h.bad_state_property_count);
                    assert!(p.invariant_constraint_count == h.invariant_constraint_count);
                    assert!(p.justice_property_count == h.justice_property_count);
                    assert!(p.fairness_constraint_count == h.fairness_constraint_count);
                    assert!(q::len() == 0, "header not consumed exactly");
                    // writer and parser agree on the implicit numbering of latches and gates
                    // whenever there is a latch or gate to number
                    if h.latch_count + h.and_gate_count > 0 {
                        assert!(parser.code == w.code && w.code == 2 * (h.input_count + 1));
                    }
                    kani::cover!(h.fairness_constraint_count != 0, "nine fields");
                    kani::cover!(h.bad_state_property_count == 0 && h.invariant_constraint_count != 0 && h.justice_property_count == 0 && h.fairness_constraint_count == 0, "inner zero field kept, trailing zeros dropped");
                    kani::cover!(h.bad_state_property_count == 0 && h.invariant_constraint_count == 0 && h.justice_property_count == 0 && h.fairness_constraint_count == 0, "five fields");
                    std::mem::forget(parser);
                }
                Err(e) => {
                    std::mem::forget(e);
                    assert!(false, "the parser rejects a header its own writer produced");
                }
            }
            std::mem::forget(w);
        }
    };
}

rt_header_harness!(rt_header, u8);
rt_header_harness!(rt_header_u64, u64);

fn any_lit(max_lit: usize) -> L {
    let c: usize = kani::any();
    kani::assume(c <= max_lit);
    L::from_code(c)
}

/// writer and parser at the same point of the implicit numbering
fn paired(w: &mut Writer<'static, L>) -> Parser<'static, L> {
    let p = any_parser();
    w.code = p.code;
    p
}

#[kani::proof]
pub fn rt_latch() {
    let mut w = capture_writer();
    let parser = paired(&mut w);
    kani::assume(parser.code <= 2 * parser.header.max_var_index); // the latch's variable exists
    let code = parser.code;
    let latch = OrderedLatch { next_state: any_lit(parser.max_lit), initialization: kani::any() };
    w.write_latch(latch);
    rt_checks();
    st::reset_script();
    let mut s = ParseLatches { parser, latches_left: 1 };
    match s.next_latch() {
        Ok(Some(p)) => {
            assert!(p == latch, "latch changed by write + parse");
            assert!(q::len() == 0);
            assert!(s.parser.code == w.code && w.code == code + 2);
            kani::cover!(latch.initialization.is_none(), "uninitialised");
            kani::cover!(latch.initialization == Some(true), "reset 1");
            kani::cover!(latch.initialization == Some(false), "reset 0");
        }
        Ok(None) => assert!(false),
        Err(e) => {
            std::mem::forget(e);
            assert!(false, "the parser rejects a latch its own writer produced");
        }
    }
    std::mem::forget(s);
    std::mem::forget(w);
}

#[kani::proof]
pub fn rt_and_gate() {
    let mut w = capture_writer();
    let parser = paired(&mut w);
    kani::assume(parser.code <= 2 * parser.header.max_var_index);
    let code = parser.code;
    // binary-legal gate: inputs below the gate, larger input first (either order is written
    // correctly: the writer sorts; the parser returns the sorted pair)
    let a = any_lit(parser.max_lit);
    let b = any_lit(parser.max_lit);
    kani::assume(a.code() <= code && b.code() <= code);
    let gate = OrderedAndGate { inputs: [a, b] };
    w.write_and_gate(gate);
    rt_checks();
    st::reset_script();
    let mut s = ParseAndGates { parser, ands_left: 1 };
    match s.next_and_gate() {
        Ok(Some(p)) => {
            let (hi, lo) = if a.code() >= b.code() { (a, b) } else { (b, a) };
            assert!(p.inputs[0] == hi && p.inputs[1] == lo, "and gate changed by write + parse");
            assert!(q::len() == 0);
            assert!(s.parser.code == w.code && w.code == code + 2);
            kani::cover!(a.code() < b.code(), "inputs swapped by the writer");
        }
        Ok(None) => assert!(false),
        Err(e) => {
            std::mem::forget(e);
            assert!(false, "the parser rejects an and gate its own writer produced");
        }
    }
    std::mem::forget(s);
    std::mem::forget(w);
}

#[kani::proof]
pub fn rt_lit_lines_and_count() {
    let mut w = capture_writer();
    let parser = paired(&mut w);
    let which: bool = kani::any();
    if which {
        let l = any_lit(parser.max_lit);
        w.write_lit(l);
        rt_checks();
        st::reset_script();
        let mut s = ParseOutputs { parser, outputs_left: 1 };
        match s.next_output() {
            Ok(Some(p)) => assert!(p == l && q::len() == 0),
            Ok(None) => assert!(false),
            Err(e) => {
                std::mem::forget(e);
                assert!(false, "output line rejected");
            }
        }
        std::mem::forget(s);
    } else {
        let n: usize = kani::any();
        w.write_count(n);
        rt_checks();
        st::reset_script();
        let mut s = ParseJusticePropertySizes { parser, justice_left: 1, total_local_fairness_count: 0 };
        match s.next_justice_property_size() {
            Ok(Some(p)) => assert!(p == n && q::len() == 0),
            Ok(None) => assert!(false),
            Err(e) => {
                std::mem::forget(e);
                assert!(false, "justice size line rejected");
            }
        }
        std::mem::forget(s);
    }
    std::mem::forget(w);
}

fn any_target(h: &Header) -> SymbolTarget {
    let i: usize = kani::any();
    let k: u8 = kani::any();
    kani::assume(k < 7);
    let (t, count) = match k {
        0 => (SymbolTarget::Input(i), h.input_count),
        1 => (SymbolTarget::Output(i), h.output_count),
        2 => (SymbolTarget::Latch(i), h.latch_count),
        3 => (SymbolTarget::BadStateProperty(i), h.bad_state_property_count),
        4 => (SymbolTarget::InvariantConstraint(i), h.invariant_constraint_count),
        5 => (SymbolTarget::JusticeProperty(i), h.justice_property_count),
        _ => (SymbolTarget::FairnessConstraint(i), h.fairness_constraint_count),
    };
    kani::assume(i < count);
    t
}

#[kani::proof]
pub fn rt_symbol() {
    let header = any_header();
    let target = any_target(&header);
    let k = small(2);
    let sym = Symbol { target, name: Cow::Borrowed(st::NAMES[k]) };
    let mut w = capture_writer();
    w.write_symbol(&sym);
    rt_checks();
    st::reset_script();
    let mut s = ParseSymbols { parser: verif_make_parser::<L>(any_reader(), header) };
    match s.next_symbol() {
        Ok(Some(p)) => {
            assert!(p.target == target, "symbol target changed by write + parse");
            assert!(p.name.as_bytes().len() == st::NAMES[k].len());
            assert!(k != 1 || p.name.as_bytes()[0] == b'x');
            assert!(q::len() == 0);
            kani::cover!(matches!(target, SymbolTarget::InvariantConstraint(_)), "constraint symbol (shares its letter with the comment marker)");
            kani::cover!(matches!(target, SymbolTarget::FairnessConstraint(_)), "fairness symbol");
            std::mem::forget(p);
        }
        Ok(None) => assert!(false, "symbol line not recognised"),
        Err(e) => {
            std::mem::forget(e);
            assert!(false, "the parser rejects a symbol its own writer produced");
        }
    }
    std::mem::forget(s);
    std::mem::forget(w);
}

#[kani::proof]
pub fn rt_comment() {
    let header = any_header();
    let k = small(2);
    let mut w = capture_writer();
    w.write_comment(st::NAMES[k]);
    rt_checks();
    st::reset_script();
    let mut s = ParseSymbols { parser: verif_make_parser::<L>(any_reader(), header) };
    match s.comment() {
        Ok(Some(c)) => {
            assert!(c.len() == st::NAMES[k].len());
            assert!(k != 1 || c.as_bytes()[0] == b'x');
            assert!(q::len() == 0);
        }
        Ok(None) => assert!(false, "comment section not recognised"),
        Err(e) => {
            std::mem::forget(e);
            assert!(false, "the parser rejects a comment its own writer produced");
        }
    }
    std::mem::forget(s);
    std::mem::forget(w);
}

struct Expect {
    i: usize,
}

impl Expect {
    fn bytes(&mut self, b: &[u8]) {
        let mut k = 0;
        while k < b.len() {
            let t = q::peek_at(self.i).unwrap();
            assert!(t.kind == 0 && t.mag == b[k] as u128, "writer output differs from the AIGER grammar (literal byte)");
            self.i += 1;
            k += 1;
        }
    }
    fn num(&mut self, v: usize) {
        let t = q::peek_at(self.i).unwrap();
        assert!(t.kind == 1 && !t.neg && t.mag == v as u128, "writer output differs from the AIGER grammar (number)");
        self.i += 1;
    }
    fn bin(&mut self, v: usize) {
        let t = q::peek_at(self.i).unwrap();
        assert!(t.kind == 2 && t.mag == v as u128, "writer output differs from the AIGER grammar (binary delta)");
        self.i += 1;
    }
}

/// `write_ordered_aig` in the binary format: header, latches (next state [reset]), outputs, bad,
/// constraints, justice sizes, justice literals, fairness, delta-coded and gates, symbols, comment.
#[kani::proof]
pub fn w_ordered_document_order() {
    let m: usize = 5;
    let max_lit = 2 * m + 1;
    let g0a: usize = kani::any();
    let g0b: usize = kani::any();
    kani::assume(g0a <= 8 && g0b <= g0a);
    let aig = OrderedAig::<L> {
        max_var_index: m,
        input_count: 2,
        latches: vec![OrderedLatch { next_state: any_lit(max_lit), initialization: None }],
        outputs: vec![any_lit(max_lit)],
        bad_state_properties: vec![any_lit(max_lit)],
        invariant_constraints: vec![],
        justice_properties: vec![vec![any_lit(max_lit), any_lit(max_lit)], vec![]],
        fairness_constraints: vec![any_lit(max_lit)],
        and_gates: vec![OrderedAndGate { inputs: [L::from_code(g0a), L::from_code(g0b)] }],
        symbols: vec![Symbol { target: SymbolTarget::Latch(0), name: Cow::Borrowed("x") }],
        comment: Some(String::from("x")),
    };
    let mut w = capture_writer();
    w.write_ordered_aig(&aig);
    rt_checks();
    let mut e = Expect { i: 0 };
    e.bytes(b"aig");
    for v in [m, 2, 1, 1, 1, 1, 0, 2, 1] {
        e.bytes(b" ");
        e.num(v);
    }
    e.bytes(b"\n");
    // latch: variable 3 (literal 6), uninitialised = its own literal
    e.num(aig.latches[0].next_state.code());
    e.bytes(b" ");
    e.num(6);
    e.bytes(b"\n");
    e.num(aig.outputs[0].code());
    e.bytes(b"\n");
    e.num(aig.bad_state_properties[0].code());
    e.bytes(b"\n");
    e.num(2);
    e.bytes(b"\n");
    e.num(0);
    e.bytes(b"\n");
    e.num(aig.justice_properties[0][0].code());
    e.bytes(b"\n");
    e.num(aig.justice_properties[0][1].code());
    e.bytes(b"\n");
    e.num(aig.fairness_constraints[0].code());
    e.bytes(b"\n");
    // and gate: variable 4 (literal 8)
    e.bin(8 - g0a);
    e.bin(g0a - g0b);
    e.bytes(b"l");
    e.num(0);
    e.bytes(b" x\n");
    e.bytes(b"c\nx\n");
    assert!(e.i == q::len(), "writer emitted more than the grammar allows");
    std::mem::forget(aig);
    std::mem::forget(w);
}

/// C05 (memory clause): `parse()` pre-allocates its sections from the header; for EVERY header
/// (counts up to usize::MAX) every reserve / with_capacity stays below the constant bound, so a
/// tiny input that merely declares huge counts cannot make the parser allocate. Here the input
/// ends right after the header (every section reader fails at its first token or is skipped).
#[kani::proof]
#[kani::stub(std::vec::Vec::reserve, alloc_stub::reserve)]
#[kani::stub(std::vec::Vec::with_capacity, alloc_stub::with_capacity)]
pub fn parse_prealloc_bound() {
    st::reset(0);
    unsafe {
        st::CUT_AFTER_PREALLOC = true;
    }
    let header = Header {
        max_var_index: kani::any(),
        input_count: kani::any(),
        latch_count: kani::any(),
        output_count: kani::any(),
        and_gate_count: kani::any(),
        bad_state_property_count: kani::any(),
        invariant_constraint_count: kani::any(),
        justice_property_count: kani::any(),
        fairness_constraint_count: kani::any(),
    };
    kani::assume(header.max_var_index <= (usize::MAX - 1) / 2);
    kani::assume(header.input_count <= header.max_var_index);
    kani::assume(header.latch_count <= header.max_var_index - header.input_count);
    kani::assume(header.and_gate_count <= header.max_var_index - header.input_count - header.latch_count);
    let parser = verif_make_parser::<u64>(any_reader(), header);
    let r = parser.parse();
    unsafe {
        kani::cover!(alloc_stub::RESERVE_CALLS >= 6, "section pre-allocations reached");
    }
    std::mem::forget(r);
}

// (The counts declared in the BODY (justice property sizes) are read deep inside `parse()`. A second
// harness with a header declaring only justice properties and a second cut point after the
// justice-size loop still ran out of memory (nested Vec growth and drop glue), so allocations
// driven by body counts are outside the claim; the seeded change C05_3 is missed.)

#[kani::proof]
pub fn reach_binary_t3() {
    let mut w = capture_writer();
    let parser = paired(&mut w);
    kani::assume(parser.code <= 2 * parser.header.max_var_index);
    let a = any_lit(parser.max_lit);
    let b = any_lit(parser.max_lit);
    kani::assume(a.code() <= parser.code && b.code() <= parser.code);
    w.write_and_gate(OrderedAndGate { inputs: [a, b] });
    st::reset_script();
    let mut s = ParseAndGates { parser, ands_left: 1 };
    if let Ok(Some(p)) = s.next_and_gate() {
        if p.inputs[0].code() == 9 && p.inputs[1].code() == 4 && q::len() == 0 {
            assert!(false, "reachability witness");
        }
    }
    std::mem::forget(s);
    std::mem::forget(w);
}
