// Contract stubs for flussab-aiger's token layer (T2). See harness/cnf/token_stub.rs for the idea.
// Number tokens with a limit return any value <= limit (that is what limited_* T0 harnesses prove)
// and record the limits they were called with, so that the harness can check which limit the
// parser installs for which field.

use super::*;
use crate::error::InnerParseError;
use flussab::text::{LineColumn, SyntaxError};

pub static mut ON: bool = false;
pub static mut FUEL: usize = 0;
pub static mut CALLS: usize = 0;
pub static mut ERRS: usize = 0;
pub static mut NEWLINES_OK: usize = 0;
pub static mut CALLS_AFTER_NEWLINE: usize = 0;
pub static mut EOF_OK: usize = 0;
pub static mut AT_END: bool = false;
pub static mut IO_FAILED: bool = false;
pub const MAXREC: usize = 10;
pub static mut HF_N: usize = 0; // header_field calls
pub static mut HF_LIMIT: [usize; MAXREC] = [0; MAXREC];
pub static mut HF_HARD: [bool; MAXREC] = [false; MAXREC];
pub static mut HF_RET: [usize; MAXREC] = [0; MAXREC];
pub static mut SI_N: usize = 0; // symbol_index calls
pub static mut SI_LIMIT: usize = 0;
pub static mut SI_RET: usize = 0;
pub static mut FIXED_CHOICE: u8 = 0; // which single-letter keyword `fixed` accepts in this run
pub static mut LIT_N: usize = 0; // lit() calls
pub static mut LIT_RET: [usize; MAXREC] = [0; MAXREC];
pub static mut LIT_LIMIT: [usize; MAXREC] = [0; MAXREC];
pub static mut LIT_ASSIGN: [bool; MAXREC] = [false; MAXREC];
pub static mut LIT_OK: usize = 0; // successful lit() calls
pub static mut DC_N: usize = 0; // delta_code calls
pub static mut DC_CODE: [usize; 2] = [0; 2];
pub static mut DC_RET: [usize; 2] = [0; 2];
pub static mut NLS_SPACE: bool = false; // last required_newline_or_space returned "space"
pub static mut SPACES_OK: usize = 0;
/// T3: the stubs read the ghost token queue filled by the real writer (flussab::verif_q)
pub static mut SCRIPT: bool = false;
/// parse_prealloc_bound: leave `Parser::parse` right after its pre-allocation block
pub static mut CUT_AFTER_PREALLOC: bool = false;

pub fn cut_after_prealloc() -> bool {
    unsafe { ON && CUT_AFTER_PREALLOC }
}

fn script() -> bool {
    unsafe { SCRIPT }
}

/// T3 entry: stubs on, script mode, queue already filled by the writer
pub fn reset_script() {
    reset(0);
    unsafe {
        SCRIPT = true;
        AT_END = false;
        IO_FAILED = false;
    }
    flussab::verif_q::stop_capture();
}

/// names/comments used by the round-trip harnesses (the stubs hand out `&'static str`)
pub static NAMES: [&str; 3] = ["", "x", "a b"];

fn q_text_until_newline(consume_rest: bool) -> Option<&'static str> {
    // bytes up to the newline (which must be there); with consume_rest the text is everything up
    // to the LAST newline, which must be the last token
    use flussab::verif_q as q;
    let mut k = 0;
    while k < NAMES.len() {
        let cand = NAMES[k].as_bytes();
        let mut ok = true;
        let mut i = 0;
        while i < cand.len() {
            match q::peek_at(i) {
                Some(t) if t.kind == 0 && t.mag == cand[i] as u128 => {}
                _ => ok = false,
            }
            i += 1;
        }
        if ok {
            if let Some(t) = q::peek_at(cand.len()) {
                if t.kind == 0 && t.mag == b'\n' as u128 && (!consume_rest || q::len() == cand.len() + 1) {
                    let mut j = 0;
                    while j <= cand.len() {
                        q::pop();
                        j += 1;
                    }
                    return Some(NAMES[k]);
                }
            }
        }
        k += 1;
    }
    None
}

fn s_limited(limit: usize) -> Result<usize, ParseError> {
    // contract of uint::<usize> + limit check on the canonical decimal text of a number
    match flussab::verif_q::take_num() {
        Some((false, mag)) if mag <= usize::MAX as u128 && mag as usize <= limit => Ok(mag as usize),
        _ => Err(any_err()),
    }
}

pub fn on() -> bool {
    unsafe { ON }
}

pub fn reset(fuel: usize) {
    unsafe {
        ON = true;
        FUEL = fuel;
        CALLS = 0;
        ERRS = 0;
        NEWLINES_OK = 0;
        CALLS_AFTER_NEWLINE = 0;
        EOF_OK = 0;
        HF_N = 0;
        SI_N = 0;
        LIT_N = 0;
        LIT_OK = 0;
        DC_N = 0;
        SPACES_OK = 0;
        SCRIPT = false;
        AT_END = kani::any();
        IO_FAILED = kani::any();
        FIXED_CHOICE = kani::any();
    }
}

fn tick() {
    unsafe {
        CALLS += 1;
        if NEWLINES_OK > 0 {
            CALLS_AFTER_NEWLINE += 1;
        }
    }
}

fn consume() -> bool {
    unsafe {
        if FUEL == 0 || AT_END {
            false
        } else if kani::any() {
            FUEL -= 1;
            true
        } else {
            false
        }
    }
}

pub fn any_err() -> ParseError {
    unsafe {
        ERRS += 1;
    }
    Box::new(InnerParseError::SyntaxError(SyntaxError {
        location: LineColumn { line: 1, column: 1 },
        msg: String::new(),
    }))
}

pub fn unexpected(_input: &mut LineReader, _expected: &str) -> ParseError {
    tick();
    any_err()
}

pub fn fixed(_input: &mut LineReader, fixed: &[u8]) -> Parsed<(), ParseError> {
    tick();
    if script() {
        return if flussab::verif_q::take_bytes(fixed) { Res(Ok(())) } else { Fallthrough };
    }
    // at most one keyword can match at a given input position
    let matches = fixed.len() != 1 || unsafe { FIXED_CHOICE } == fixed[0];
    if matches && consume() {
        Res(Ok(()))
    } else {
        Fallthrough
    }
}

pub fn fixed_not_eol(input: &mut LineReader, f: &[u8]) -> Parsed<(), ParseError> {
    if script() {
        tick();
        // matches only if the byte after the keyword is not a newline
        use flussab::verif_q as q;
        if let Some(t) = q::peek_at(f.len()) {
            if t.kind == 0 && t.mag == b'\n' as u128 {
                return Fallthrough;
            }
        }
        return if q::take_bytes(f) { Res(Ok(())) } else { Fallthrough };
    }
    fixed(input, f)
}

pub fn space(_input: &mut LineReader) -> Parsed<(), ParseError> {
    tick();
    if script() {
        return if flussab::verif_q::take_bytes(b" ") { Res(Ok(())) } else { Fallthrough };
    }
    if consume() {
        unsafe {
            SPACES_OK += 1;
        }
        Res(Ok(()))
    } else {
        Fallthrough
    }
}

pub fn required_space(_input: &mut LineReader) -> Result<(), ParseError> {
    tick();
    if script() {
        return if flussab::verif_q::take_bytes(b" ") { Ok(()) } else { Err(any_err()) };
    }
    if consume() {
        unsafe {
            SPACES_OK += 1;
        }
        Ok(())
    } else {
        Err(any_err())
    }
}

pub fn newline(_input: &mut LineReader) -> Parsed<(), ParseError> {
    tick();
    if script() {
        return if flussab::verif_q::take_bytes(b"\n") {
            unsafe {
                NEWLINES_OK += 1;
            }
            Res(Ok(()))
        } else {
            Fallthrough
        };
    }
    if consume() {
        unsafe {
            NEWLINES_OK += 1;
        }
        Res(Ok(()))
    } else {
        Fallthrough
    }
}

pub fn required_newline(_input: &mut LineReader) -> Result<(), ParseError> {
    tick();
    if script() {
        return if flussab::verif_q::take_bytes(b"\n") {
            unsafe {
                NEWLINES_OK += 1;
            }
            Ok(())
        } else {
            Err(any_err())
        };
    }
    if consume() {
        unsafe {
            NEWLINES_OK += 1;
        }
        Ok(())
    } else {
        Err(any_err())
    }
}

pub fn required_newline_or_space(_input: &mut LineReader) -> Result<bool, ParseError> {
    tick();
    if script() {
        if flussab::verif_q::take_bytes(b" ") {
            return Ok(true);
        }
        if flussab::verif_q::take_bytes(b"\n") {
            unsafe {
                NEWLINES_OK += 1;
            }
            return Ok(false);
        }
        return Err(any_err());
    }
    if consume() {
        let space: bool = kani::any();
        if !space {
            unsafe {
                NEWLINES_OK += 1;
            }
        }
        unsafe {
            NLS_SPACE = space;
        }
        Ok(space)
    } else {
        Err(any_err())
    }
}

fn limited(limit: usize) -> Result<usize, ParseError> {
    if !consume() {
        return Err(any_err());
    }
    let v: usize = kani::any();
    kani::assume(v <= limit);
    Ok(v)
}

pub fn header_field(_input: &mut LineReader, _name: &str, limit: usize, hard: bool) -> Result<usize, ParseError> {
    tick();
    let r = if script() { s_limited(limit) } else { limited(limit) };
    unsafe {
        if HF_N < MAXREC {
            HF_LIMIT[HF_N] = limit;
            HF_HARD[HF_N] = hard;
            if let Ok(v) = &r {
                HF_RET[HF_N] = *v;
            }
            HF_N += 1;
        }
    }
    r
}

pub fn lit(_input: &mut LineReader, _name: &str, limit: usize, assigning: bool) -> Result<usize, ParseError> {
    tick();
    unsafe {
        if LIT_N < MAXREC {
            LIT_LIMIT[LIT_N] = limit;
            LIT_ASSIGN[LIT_N] = assigning;
        }
        LIT_N += 1;
    }
    let r = if script() {
        let r = s_limited(limit)?;
        // contract (limited_lit): an assigning literal is even and non-zero, else rejected
        if assigning && (r == 0 || r % 2 != 0) {
            return Err(any_err());
        }
        r
    } else {
        let r = limited(limit)?;
        if assigning {
            kani::assume(r != 0 && r % 2 == 0);
        }
        r
    };
    unsafe {
        if LIT_N <= MAXREC {
            LIT_RET[LIT_N - 1] = r;
        }
        LIT_OK += 1;
    }
    Ok(r)
}

pub fn symbol_index(_input: &mut LineReader, _name: &str, limit: usize) -> Result<usize, ParseError> {
    tick();
    unsafe {
        SI_N += 1;
        SI_LIMIT = limit;
    }
    let r = if script() { s_limited(limit)? } else { limited(limit)? };
    unsafe {
        SI_RET = r;
    }
    Ok(r)
}

pub fn delta_code(_input: &mut LineReader, code: usize, _t: &str, _r: &str) -> Result<usize, ParseError> {
    tick();
    let r = if script() {
        // contract (delta_code_token): the 7-bit encoded delta must not exceed the reference code
        match flussab::verif_q::take_bin() {
            Some(d) if d as u128 <= code as u128 => code - d as usize,
            _ => return Err(any_err()),
        }
    } else {
        limited(code)?
    };
    unsafe {
        if DC_N < 2 {
            DC_CODE[DC_N] = code;
            DC_RET[DC_N] = r;
        }
        DC_N += 1;
    }
    Ok(r)
}

static EMPTY: &str = "";

pub fn remaining_line_content<'a>(_input: &'a mut LineReader) -> Result<&'a str, ParseError> {
    tick();
    if script() {
        return match q_text_until_newline(false) {
            Some(t) => {
                unsafe {
                    NEWLINES_OK += 1;
                }
                Ok(t)
            }
            None => Err(any_err()),
        };
    }
    if consume() {
        unsafe {
            NEWLINES_OK += 1;
        }
        Ok(EMPTY)
    } else {
        Err(any_err())
    }
}

pub fn remaining_file_content<'a>(_input: &'a mut LineReader) -> Result<&'a str, ParseError> {
    tick();
    if script() {
        if flussab::verif_q::len() == 0 {
            return Ok(EMPTY);
        }
        return match q_text_until_newline(true) {
            Some(t) => Ok(t),
            None => Err(any_err()),
        };
    }
    unsafe {
        if IO_FAILED {
            return Err(any_err());
        }
    }
    if kani::any() {
        Ok(EMPTY)
    } else {
        Err(any_err())
    }
}

pub fn eof(_input: &mut LineReader) -> Parsed<(), ParseError> {
    tick();
    if script() {
        return if flussab::verif_q::len() == 0 {
            unsafe {
                EOF_OK += 1;
            }
            Res(Ok(()))
        } else {
            Fallthrough
        };
    }
    unsafe {
        if AT_END && !IO_FAILED {
            EOF_OK += 1;
            Res(Ok(()))
        } else {
            Fallthrough
        }
    }
}

pub fn invalid_initialization(_input: &mut LineReader) -> ParseError {
    tick();
    any_err()
}
