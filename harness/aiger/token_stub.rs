// Contract stubs for flussab-aiger's token layer (T2). See harness/cnf/token_stub.rs for the idea.
// Number tokens with a limit return any value <= limit (that is what limited_* T0 harnesses prove)
// and record the limits they were called with, so that the harness can check which limit the
// parser installs for which field.

use super::*;
use crate::error::InnerParseError;
use flussab::text::{LineColumn, SyntaxError};

pub static mut ON: bool = false;
pub static mut FUEL: usize = 0;
pub static mut CALLS: usize = 0;
pub static mut ERRS: usize = 0;
pub static mut NEWLINES_OK: usize = 0;
pub static mut CALLS_AFTER_NEWLINE: usize = 0;
pub static mut EOF_OK: usize = 0;
pub static mut AT_END: bool = false;
pub static mut IO_FAILED: bool = false;
pub const MAXREC: usize = 10;
pub static mut HF_N: usize = 0; // header_field calls
pub static mut HF_LIMIT: [usize; MAXREC] = [0; MAXREC];
pub static mut HF_HARD: [bool; MAXREC] = [false; MAXREC];
pub static mut HF_RET: [usize; MAXREC] = [0; MAXREC];
pub static mut SI_N: usize = 0; // symbol_index calls
pub static mut SI_LIMIT: usize = 0;
pub static mut SI_RET: usize = 0;
pub static mut FIXED_CHOICE: u8 = 0; // which single-letter keyword `fixed` accepts in this run

pub fn on() -> bool {
    unsafe { ON }
}

pub fn reset(fuel: usize) {
    unsafe {
        ON = true;
        FUEL = fuel;
        CALLS = 0;
        ERRS = 0;
        NEWLINES_OK = 0;
        CALLS_AFTER_NEWLINE = 0;
        EOF_OK = 0;
        HF_N = 0;
        SI_N = 0;
        AT_END = kani::any();
        IO_FAILED = kani::any();
        FIXED_CHOICE = kani::any();
    }
}

fn tick() {
    unsafe {
        CALLS += 1;
        if NEWLINES_OK > 0 {
            CALLS_AFTER_NEWLINE += 1;
        }
    }
}

fn consume() -> bool {
    unsafe {
        if FUEL == 0 || AT_END {
            false
        } else if kani::any() {
            FUEL -= 1;
            true
        } else {
            false
        }
    }
}

pub fn any_err() -> ParseError {
    unsafe {
        ERRS += 1;
    }
    Box::new(InnerParseError::SyntaxError(SyntaxError {
        location: LineColumn { line: 1, column: 1 },
        msg: String::new(),
    }))
}

pub fn unexpected(_input: &mut LineReader, _expected: &str) -> ParseError {
    tick();
    any_err()
}

pub fn fixed(_input: &mut LineReader, fixed: &[u8]) -> Parsed<(), ParseError> {
    tick();
    // at most one keyword can match at a given input position
    let matches = fixed.len() != 1 || unsafe { FIXED_CHOICE } == fixed[0];
    if matches && consume() {
        Res(Ok(()))
    } else {
        Fallthrough
    }
}

pub fn fixed_not_eol(input: &mut LineReader, f: &[u8]) -> Parsed<(), ParseError> {
    fixed(input, f)
}

pub fn space(_input: &mut LineReader) -> Parsed<(), ParseError> {
    tick();
    if consume() {
        Res(Ok(()))
    } else {
        Fallthrough
    }
}

pub fn required_space(_input: &mut LineReader) -> Result<(), ParseError> {
    tick();
    if consume() {
        Ok(())
    } else {
        Err(any_err())
    }
}

pub fn newline(_input: &mut LineReader) -> Parsed<(), ParseError> {
    tick();
    if consume() {
        unsafe {
            NEWLINES_OK += 1;
        }
        Res(Ok(()))
    } else {
        Fallthrough
    }
}

pub fn required_newline(_input: &mut LineReader) -> Result<(), ParseError> {
    tick();
    if consume() {
        unsafe {
            NEWLINES_OK += 1;
        }
        Ok(())
    } else {
        Err(any_err())
    }
}

pub fn required_newline_or_space(_input: &mut LineReader) -> Result<bool, ParseError> {
    tick();
    if consume() {
        let space: bool = kani::any();
        if !space {
            unsafe {
                NEWLINES_OK += 1;
            }
        }
        Ok(space)
    } else {
        Err(any_err())
    }
}

fn limited(limit: usize) -> Result<usize, ParseError> {
    if !consume() {
        return Err(any_err());
    }
    let v: usize = kani::any();
    kani::assume(v <= limit);
    Ok(v)
}

pub fn header_field(_input: &mut LineReader, _name: &str, limit: usize, hard: bool) -> Result<usize, ParseError> {
    tick();
    let r = limited(limit);
    unsafe {
        if HF_N < MAXREC {
            HF_LIMIT[HF_N] = limit;
            HF_HARD[HF_N] = hard;
            if let Ok(v) = &r {
                HF_RET[HF_N] = *v;
            }
            HF_N += 1;
        }
    }
    r
}

pub fn lit(_input: &mut LineReader, _name: &str, limit: usize, assigning: bool) -> Result<usize, ParseError> {
    tick();
    let r = limited(limit)?;
    if assigning {
        kani::assume(r != 0 && r % 2 == 0);
    }
    Ok(r)
}

pub fn symbol_index(_input: &mut LineReader, _name: &str, limit: usize) -> Result<usize, ParseError> {
    tick();
    unsafe {
        SI_N += 1;
        SI_LIMIT = limit;
    }
    let r = limited(limit)?;
    unsafe {
        SI_RET = r;
    }
    Ok(r)
}

pub fn delta_code(_input: &mut LineReader, code: usize, _t: &str, _r: &str) -> Result<usize, ParseError> {
    tick();
    limited(code)
}

static EMPTY: &str = "";

pub fn remaining_line_content<'a>(_input: &'a mut LineReader) -> Result<&'a str, ParseError> {
    tick();
    if consume() {
        unsafe {
            NEWLINES_OK += 1;
        }
        Ok(EMPTY)
    } else {
        Err(any_err())
    }
}

pub fn remaining_file_content<'a>(_input: &'a mut LineReader) -> Result<&'a str, ParseError> {
    tick();
    unsafe {
        if IO_FAILED {
            return Err(any_err());
        }
    }
    if kani::any() {
        Ok(EMPTY)
    } else {
        Err(any_err())
    }
}

pub fn eof(_input: &mut LineReader) -> Parsed<(), ParseError> {
    tick();
    unsafe {
        if AT_END && !IO_FAILED {
            EOF_OK += 1;
            Res(Ok(()))
        } else {
            Fallthrough
        }
    }
}

pub fn invalid_initialization(_input: &mut LineReader) -> ParseError {
    tick();
    any_err()
}
