// Allocation-bound stubs (C05, memory clause), `include!`d into harness modules and installed with
//   #[kani::stub(std::vec::Vec::reserve, alloc_stub::reserve)]
//   #[kani::stub(std::vec::Vec::with_capacity, alloc_stub::with_capacity)]
// Symbolic allocation sizes exhaust CBMC, so an up-front allocation cannot be executed
// symbolically. The stubs turn every explicit `reserve(n)` / `with_capacity(n)` in the code under
// test into a verification condition `n <= ALLOC_BOUND` and skip the allocation when it is only a
// hint (large n on an empty vector); small requests (std's own callers: extend_from_slice, ..)
// are forwarded to `reserve_exact`. The parsers may pre-allocate a bounded amount; an amount that
// follows a count merely DECLARED by the input fails the condition for the large values of it.
pub mod alloc_stub {
    /// largest element count a parser may reserve up front (the AIGER parsers cap at 2^16)
    pub const ALLOC_BOUND: usize = 1 << 16;
    const FORWARD_BELOW: usize = 8;
    pub static mut RESERVE_CALLS: usize = 0;

    pub fn reserve<T, A: std::alloc::Allocator>(v: &mut Vec<T, A>, additional: usize) {
        unsafe {
            RESERVE_CALLS += 1;
        }
        assert!(additional <= ALLOC_BOUND, "allocation bound: reserve() follows a declared count");
        if additional <= FORWARD_BELOW {
            v.reserve_exact(additional);
        }
    }

    pub fn with_capacity<T>(n: usize) -> Vec<T> {
        unsafe {
            RESERVE_CALLS += 1;
        }
        assert!(n <= ALLOC_BOUND, "allocation bound: with_capacity() follows a declared count");
        Vec::new()
    }
}
