// Shared helpers for the tokenizer harnesses of the format crates (included textually into each
// crate's harness module; expects `crate::error::{InnerParseError, ParseError}` with the usual
// two variants). Works on the reader model R (see harness/flussab/reader_model.rs).

#[allow(unused_imports)]
use flussab::{
    text::{LineColumn, LineReader, SyntaxError},
    DeferredReader, ModelState, Parsed, Refill, MODEL_N,
};

#[allow(dead_code)]
pub fn byte_at(st: &ModelState, idx: usize) -> Option<u8> {
    if idx < st.len {
        Some(st.data[idx])
    } else {
        None
    }
}

#[allow(dead_code)]
pub fn is_blank(b: u8) -> bool {
    b == b' ' || b == b'\t'
}

#[allow(dead_code)]
pub fn is_digit(b: u8) -> bool {
    b >= b'0' && b <= b'9'
}

/// window index just past the maximal run of spaces/tabs starting at `i`
#[allow(dead_code)]
pub fn skip_blanks(st: &ModelState, mut i: usize) -> usize {
    while i < st.len && is_blank(st.data[i]) {
        i += 1;
    }
    i
}

/// longest digit run at window index `start`: (count, value saturating, exceeded u128)
#[allow(dead_code)]
pub fn ref_digits(st: &ModelState, start: usize) -> (usize, u128, bool) {
    let mut i = start;
    let mut v: u128 = 0;
    let mut big = false;
    while i < st.len && is_digit(st.data[i]) {
        let d = (st.data[i] - b'0') as u128;
        match v.checked_mul(10).and_then(|x| x.checked_add(d)) {
            Some(x) => v = x,
            None => big = true,
        }
        i += 1;
    }
    (if i >= start { i - start } else { 0 }, v, big)
}

/// cnf-style end of word: blank, CR, LF or end of input
#[allow(dead_code)]
pub fn is_eow(st: &ModelState, idx: usize) -> bool {
    match byte_at(st, idx) {
        None => true,
        Some(b) => b == b' ' || b == b'\t' || b == b'\r' || b == b'\n',
    }
}

/// Ghost view of a LineReader before the call.
#[derive(Clone, Copy)]
pub struct LPre {
    pub st: ModelState,
    pub line: usize,
    pub line_start: usize,
    pub position: usize,
}

/// An arbitrary LineReader satisfying LInv (line >= 1, line_start <= position) over an arbitrary
/// reader-model state.
#[allow(dead_code)]
pub fn any_line_reader(refill: Refill) -> (LineReader<'static>, LPre) {
    let reader = DeferredReader::model_any(refill);
    line_reader_over(reader)
}

#[allow(dead_code)]
pub fn line_reader_over(reader: DeferredReader<'static>) -> (LineReader<'static>, LPre) {
    let line: usize = kani::any();
    kani::assume(line >= 1 && line <= usize::MAX / 2);
    let line_start: usize = kani::any();
    kani::assume(line_start <= reader.position());
    let pre = LPre {
        st: reader.snapshot(),
        line,
        line_start,
        position: reader.position(),
    };
    (
        LineReader {
            reader,
            line,
            line_start,
        },
        pre,
    )
}

/// Result of a token function with the error boxed away (no drop glue in the harness).
#[derive(Clone, Copy, PartialEq, Eq, Debug)]
pub enum Out<T> {
    Fall,
    Ok(T),
    Syntax(LineColumn),
    Io,
}

#[allow(dead_code)]
pub fn classify_err(e: ParseError) -> (bool, LineColumn) {
    let r = match &*e {
        InnerParseError::SyntaxError(se) => (false, se.location),
        InnerParseError::IoError(_) => (true, LineColumn { line: 0, column: 0 }),
    };
    std::mem::forget(e);
    r
}

#[allow(dead_code)]
pub fn out_of<T>(p: Parsed<T, ParseError>) -> Out<T> {
    match p {
        Parsed::Fallthrough => Out::Fall,
        Parsed::Res(Ok(v)) => Out::Ok(v),
        Parsed::Res(Err(e)) => {
            let (io, loc) = classify_err(e);
            if io {
                Out::Io
            } else {
                Out::Syntax(loc)
            }
        }
    }
}

#[allow(dead_code)]
pub fn out_of_result<T>(p: Result<T, ParseError>) -> Out<T> {
    match p {
        Ok(v) => Out::Ok(v),
        Err(e) => {
            let (io, loc) = classify_err(e);
            if io {
                Out::Io
            } else {
                Out::Syntax(loc)
            }
        }
    }
}

/// Number of bytes the cursor moved.
#[allow(dead_code)]
pub fn consumed(lr: &LineReader, pre: &LPre) -> usize {
    lr.reader.m_pos - pre.st.pos
}

/// C08 line accounting: after consuming data[a..b], `line` grew by the number of LF consumed and
/// `line_start` is the absolute offset just after the last consumed LF (unchanged if none).
/// `virtual_eof_line`: a comment that ends at the end of input without LF may open a (virtual) next
/// line at the end position.
#[allow(dead_code)]
pub fn check_line_tracking(lr: &LineReader, pre: &LPre, virtual_eof_line: bool) {
    let a = pre.st.pos;
    let b = lr.reader.m_pos;
    let mut nl = 0usize;
    let mut last: Option<usize> = None;
    let mut i = a;
    while i < b {
        if pre.st.data[i] == b'\n' {
            nl += 1;
            last = Some(i);
        }
        i += 1;
    }
    let ends_with_lf = b > a && pre.st.data[b - 1] == b'\n';
    if virtual_eof_line && b > a && !ends_with_lf && b == pre.st.len {
        assert!(lr.line == pre.line + nl + 1);
        assert!(lr.line_start == pre.st.base + b);
        return;
    }
    assert!(lr.line == pre.line + nl, "line counter == number of LF consumed");
    match last {
        Some(i) => assert!(lr.line_start == pre.st.base + i + 1, "line_start just after the last LF"),
        None => assert!(lr.line_start == pre.line_start, "line_start unchanged"),
    }
    assert!(lr.line_start <= lr.reader.position());
}

/// C08: a syntax error located at window index `idx` on the line current before the call.
#[allow(dead_code)]
pub fn check_loc_at(loc: LineColumn, pre: &LPre, idx: usize) {
    assert!(loc.line == pre.line, "error line is the current line");
    assert!(
        loc.column == pre.st.base + idx - pre.line_start + 1,
        "error column designates the offending token"
    );
    assert!(loc.column >= 1);
}

/// C04: a parked I/O error is never dropped silently: after the call it is parked iff it was
/// parked before or the call reached the end of a failing source -- unless it was reported.
#[allow(dead_code)]
pub fn check_error_not_lost(lr: &LineReader, pre: &LPre, reported_io: bool) {
    let should = pre.st.err_parked || (pre.st.fault && lr.reader.m_complete && !pre.st.complete);
    if reported_io {
        assert!(should, "I/O error reported although none occurred");
        assert!(!lr.reader.m_err_parked);
    } else {
        assert!(lr.reader.m_err_parked == should, "parked I/O error lost or invented");
    }
}

#[allow(dead_code)]
pub fn max2(a: usize, b: usize) -> usize {
    if a > b {
        a
    } else {
        b
    }
}

/// C09: the call requested nothing beyond window index `limit` (exclusive bound on indices, i.e.
/// hw <= limit), apart from what was already requested before.
#[allow(dead_code)]
pub fn check_lookahead(lr: &LineReader, pre: &LPre, limit: usize) {
    assert!(lr.reader.m_hw <= max2(pre.st.hw, limit), "requested input beyond what decides the token");
}
