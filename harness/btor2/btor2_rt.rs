// C03 entry-level round trips for BTOR2 (included into a scratch copy of flussab-btor2/src/btor2.rs):
// keyword tables (writer's name() vs. the parser's keyword lookup) and the validating constant
// constructors vs. the constant tokens.

use super::*;
use crate::token::{self, NodeToken, NodeValueToken, NodeValueUnaryOpToken, NodeValueExtOpToken};
use flussab::{text::LineReader, DeferredReader, Parsed, Refill, MODEL_N};

fn reader_over(text: &[u8], terminator: u8) -> (LineReader<'static>, usize) {
    let mut data = [0u8; MODEL_N];
    let mut i = 0;
    while i < text.len() {
        data[i] = text[i];
        i += 1;
    }
    data[i] = terminator;
    let len = text.len() + 1;
    (LineReader::new(DeferredReader::model_with(data, len, 0, Refill::Nondet)), len)
}

const ALL_BINARY: [BinaryOp; 40] = [
    BinaryOp::Iff, BinaryOp::Implies, BinaryOp::Eq, BinaryOp::Neq, BinaryOp::Ugt, BinaryOp::Sgt,
    BinaryOp::Ugte, BinaryOp::Sgte, BinaryOp::Ult, BinaryOp::Slt, BinaryOp::Ulte, BinaryOp::Slte,
    BinaryOp::And, BinaryOp::Nand, BinaryOp::Nor, BinaryOp::Or, BinaryOp::Xnor, BinaryOp::Xor,
    BinaryOp::Rol, BinaryOp::Ror, BinaryOp::Sll, BinaryOp::Sra, BinaryOp::Srl, BinaryOp::Add,
    BinaryOp::Mul, BinaryOp::Udiv, BinaryOp::Sdiv, BinaryOp::Smod, BinaryOp::Urem, BinaryOp::Srem,
    BinaryOp::Sub, BinaryOp::Uaddo, BinaryOp::Saddo, BinaryOp::Sdivo, BinaryOp::Umulo,
    BinaryOp::Smulo, BinaryOp::Usubo, BinaryOp::Ssubo, BinaryOp::Concat, BinaryOp::Read,
];

fn reader_buffered(text: &[u8], terminator: u8) -> (LineReader<'static>, usize) {
    let mut data = [0u8; MODEL_N];
    let mut i = 0;
    while i < text.len() {
        data[i] = text[i];
        i += 1;
    }
    data[i] = terminator;
    let len = text.len() + 1;
    (LineReader::new(DeferredReader::model_buffered(data, len)), len)
}

/// keyword lookup on a fully buffered concrete word (schedule independence of the scanner is the
/// separate harness lowercase_run_schedule_independent / lowercase_u64_fast_eq_cold)
fn lookup(name: &'static str) -> Option<NodeToken> {
    let (mut lr, len) = reader_buffered(name.as_bytes(), b' ');
    let r = match token::node_token(&mut lr) {
        Parsed::Res(Ok(t)) => {
            assert!(lr.reader.m_pos == len - 1, "the keyword is consumed exactly");
            Some(t)
        }
        Parsed::Fallthrough => None,
        Parsed::Res(Err(e)) => {
            std::mem::forget(e);
            None
        }
    };
    std::mem::forget(lr);
    r
}

/// every binary operator's written name is a keyword that reads back as the same operator
#[kani::proof]
pub fn rt_binary_op_names() {
    let k: usize = kani::any();
    kani::assume(k < ALL_BINARY.len());
    // the discriminants are dense, so the table is complete iff the cast round-trips
    assert!(ALL_BINARY[k] as usize == k, "operator table lists every variant in order");
    let mut i = 0;
    while i < ALL_BINARY.len() {
        let op = ALL_BINARY[i];
        match lookup(op.name()) {
            Some(NodeToken::Value(NodeValueToken::BinaryOp(got))) => assert!(got == op),
            _ => assert!(false, "written operator name is not read back as that operator"),
        }
        i += 1;
    }
}

#[kani::proof]
pub fn rt_other_keywords() {
    let unary = [
        (UnaryOp::Not, 0u8), (UnaryOp::Inc, 1), (UnaryOp::Dec, 2), (UnaryOp::Neg, 3),
        (UnaryOp::Redand, 4), (UnaryOp::Redor, 5), (UnaryOp::Redxor, 6),
    ];
    let mut i = 0;
    while i < unary.len() {
        match lookup(unary[i].0.name()) {
            Some(NodeToken::Value(NodeValueToken::UnaryOp(t))) => assert!(t.unary_op() == unary[i].0),
            _ => assert!(false, "unary operator name not read back"),
        }
        i += 1;
    }
    match lookup(UnaryOp::Uext(3).name()) {
        Some(NodeToken::Value(NodeValueToken::ExtOp(t))) => assert!(t.unary_op(3) == UnaryOp::Uext(3)),
        _ => assert!(false),
    }
    match lookup(UnaryOp::Sext(4).name()) {
        Some(NodeToken::Value(NodeValueToken::ExtOp(t))) => assert!(t.unary_op(4) == UnaryOp::Sext(4)),
        _ => assert!(false),
    }
    assert!(matches!(lookup(UnaryOp::Slice(1, 0).name()), Some(NodeToken::Value(NodeValueToken::Slice))));
    match lookup(TernaryOp::Ite.name()) {
        Some(NodeToken::Value(NodeValueToken::TernaryOp(t))) => assert!(t == TernaryOp::Ite),
        _ => assert!(false),
    }
    match lookup(TernaryOp::Write.name()) {
        Some(NodeToken::Value(NodeValueToken::TernaryOp(t))) => assert!(t == TernaryOp::Write),
        _ => assert!(false),
    }
}

fn any_ascii3() -> ([u8; 3], usize) {
    let b: [u8; 3] = kani::any();
    let n: usize = kani::any();
    kani::assume(n <= 3);
    kani::assume(b[0] < 0x80 && b[1] < 0x80 && b[2] < 0x80);
    (b, n)
}

fn lossy_stub(_v: &[u8]) -> std::borrow::Cow<'_, str> {
    std::borrow::Cow::Borrowed("")
}
fn fmt_stub(_args: std::fmt::Arguments<'_>) -> String {
    String::new()
}

/// a constant built through the validating constructors is read back entirely by the matching
/// constant token (otherwise the writer produces lines the parser rejects)
#[kani::proof]
#[kani::stub(std::fmt::format, fmt_stub)]
#[kani::stub(std::string::String::from_utf8_lossy, lossy_stub)]
pub fn rt_constants() {
    let (b, n) = any_ascii3();
    let text = unsafe { std::str::from_utf8_unchecked(&b[..n]) };
    let which: u8 = kani::any();
    kani::assume(which < 3);
    let constructed = match which {
        0 => BinaryConst::try_from(text).is_ok(),
        1 => DecimalConst::try_from(text).is_ok(),
        _ => HexConst::try_from(text).is_ok(),
    };
    if constructed {
        let (mut lr, len) = reader_over(&b[..n], b'\n');
        let r = match which {
            0 => token::required_binary_constant(&mut lr).map(|t| t.len()),
            1 => token::required_decimal_constant(&mut lr).map(|t| t.len()),
            _ => token::required_hex_constant(&mut lr).map(|t| t.len()),
        };
        match r {
            Ok(m) => assert!(m == n && lr.reader.m_pos == len - 1, "constructible constant is not read back entirely"),
            Err(e) => {
                std::mem::forget(e);
                assert!(false, "constructible constant is rejected by the parser");
            }
        }
        std::mem::forget(lr);
    }
    kani::cover!(constructed && which == 1 && n == 3 && b[0] == b'-', "negative decimal constant");
    kani::cover!(constructed && which == 2 && n == 2, "hex constant");
}

#[kani::proof]
pub fn reach_btor2_rt() {
    if let Some(NodeToken::Value(NodeValueToken::BinaryOp(b))) = lookup("concat") {
        if b == BinaryOp::Concat {
            assert!(false, "reachability witness");
        }
    }
}
