// Script-mode token stubs for flussab-btor2 (T3, C03): the stubs read the ghost token queue filled
// by the REAL `Line::write_into` (flussab::verif_q) and behave on it as the T0 harnesses
// (harness/btor2/token_t0.rs) show the real token functions behave on the rendered text:
//   * numbers: canonical decimal text of the value (C11 digits_*), read by `uint` exactly, no
//     leading zeros, zero rejected where a positive integer is required;
//   * single-byte tokens ' ', ';', '\n': exactly that byte;
//   * keywords: a maximal run of lower-case letters, mapped by the keyword table (the complete
//     table is the subject of btor2_rt::keywords_*; here one representative per parser arm);
//   * constants / symbol names / comment bodies: fixed candidates (maximal run up to the
//     delimiter); anything else in the queue sets UNSUPPORTED and fails the harness.
// Included into a scratch copy of flussab-btor2/src/token.rs as `mod verif_script`.

use super::*;
use crate::error::InnerParseError;
use flussab::text::{LineColumn, SyntaxError};
use flussab::verif_q as q;

pub static mut ON: bool = false;
pub static mut NEWLINES_OK: usize = 0;
pub static mut ERRS: usize = 0;

pub fn on() -> bool {
    unsafe { ON }
}

pub fn reset_script() {
    unsafe {
        ON = true;
        NEWLINES_OK = 0;
        ERRS = 0;
    }
    q::stop_capture();
}

pub fn any_err() -> ParseError {
    unsafe {
        ERRS += 1;
    }
    Box::new(InnerParseError::SyntaxError(SyntaxError {
        location: LineColumn { line: 1, column: 1 },
        msg: String::new(),
    }))
}

fn unsupported() {
    unsafe {
        q::UNSUPPORTED = true;
    }
}

fn is_lower(t: &q::Tok) -> bool {
    t.kind == 0 && t.mag >= b'a' as u128 && t.mag <= b'z' as u128
}

/// the keyword `s` is next, as a maximal run of lower-case letters
fn kw(s: &[u8]) -> bool {
    let mut i = 0;
    while i < s.len() {
        match q::peek_at(i) {
            Some(t) if t.kind == 0 && t.mag == s[i] as u128 => {}
            _ => return false,
        }
        i += 1;
    }
    if let Some(t) = q::peek_at(s.len()) {
        if is_lower(&t) {
            return false;
        }
    }
    q::take_bytes(s)
}

fn byte(b: u8) -> Parsed<(), ParseError> {
    if q::next_is_byte(b) {
        q::pop();
        Res(Ok(()))
    } else {
        Fallthrough
    }
}

pub fn unexpected(_input: &mut LineReader, _expected: &str) -> ParseError {
    any_err()
}

pub fn skip_whitespace(_input: &mut LineReader) {
    // the writer never starts a line with blanks or emits empty lines
    if q::next_is_byte(b' ') || q::next_is_byte(b'\n') {
        unsupported();
    }
}

pub fn newline(_input: &mut LineReader) -> Parsed<(), ParseError> {
    let r = byte(b'\n');
    if let Res(Ok(())) = r {
        unsafe {
            NEWLINES_OK += 1;
        }
    }
    r
}

pub fn space(_input: &mut LineReader) -> Parsed<(), ParseError> {
    byte(b' ')
}

pub fn comment_start(_input: &mut LineReader) -> Parsed<(), ParseError> {
    byte(b';')
}

pub fn required_space(input: &mut LineReader) -> Result<(), ParseError> {
    space(input).or_give_up(|| any_err())
}

/// `uint`: Fallthrough unless a number is next; values beyond u64 are an error
fn uint() -> Parsed<u64, ParseError> {
    match q::take_num() {
        None => Fallthrough,
        Some((neg, mag)) => {
            if neg || mag > u64::MAX as u128 {
                Res(Err(any_err()))
            } else {
                Res(Ok(mag as u64))
            }
        }
    }
}

fn positive() -> Parsed<NonZeroU64, ParseError> {
    match uint() {
        Res(Ok(v)) => match NonZeroU64::new(v) {
            Some(v) => Res(Ok(v)),
            None => Res(Err(any_err())),
        },
        Res(Err(e)) => Res(Err(e)),
        Fallthrough => Fallthrough,
    }
}

pub fn node_id(_input: &mut LineReader) -> Parsed<NodeId, ParseError> {
    positive().map(NodeId)
}

pub fn required_node_id(_input: &mut LineReader) -> Result<NodeId, ParseError> {
    positive().map(NodeId).or_give_up(|| any_err())
}

pub fn required_sort_id(input: &mut LineReader) -> Result<NodeId, ParseError> {
    required_node_id(input)
}

pub fn required_positive_int(_input: &mut LineReader, _what: &str) -> Result<NonZeroU64, ParseError> {
    positive().or_give_up(|| any_err())
}

pub fn required_nonnegative_int(_input: &mut LineReader, _what: &str) -> Result<u64, ParseError> {
    uint().or_give_up(|| any_err())
}

/// constants: the candidates of the harness (valid as binary, decimal and hexadecimal constants;
/// which texts each validating constructor admits and the parser reads back entirely is the
/// subject of btor2_rt::const_*)
pub fn required_constant<'a>(_input: &'a mut LineReader) -> Result<&'a str, ParseError> {
    let r: &'static str = if q::take_bytes(b"101") {
        "101"
    } else if q::take_bytes(b"10") {
        "10"
    } else if q::take_bytes(b"1") {
        "1"
    } else if q::take_bytes(b"0") {
        "0"
    } else {
        return Err(any_err());
    };
    // a longer run of constant characters is outside the candidates
    if let Some(t) = q::peek() {
        if t.kind == 1 || (t.kind == 0 && (t.mag as u8).is_ascii_hexdigit()) {
            unsupported();
        }
    }
    Ok(r)
}

pub fn node_token(_input: &mut LineReader) -> Parsed<NodeToken, ParseError> {
    let t = if kw(b"sort") {
        NodeToken::Sort
    } else if kw(b"init") {
        NodeToken::Assignment(AssignmentKind::Init)
    } else if kw(b"next") {
        NodeToken::Assignment(AssignmentKind::Next)
    } else if kw(b"bad") {
        NodeToken::Output(SingleValueOutputKind::Bad)
    } else if kw(b"output") {
        NodeToken::Output(SingleValueOutputKind::Output)
    } else if kw(b"constraint") {
        NodeToken::Output(SingleValueOutputKind::Constraint)
    } else if kw(b"fair") {
        NodeToken::Output(SingleValueOutputKind::Fair)
    } else if kw(b"justice") {
        NodeToken::Justice
    } else if kw(b"const") {
        NodeToken::Value(NodeValueToken::Const)
    } else if kw(b"constd") {
        NodeToken::Value(NodeValueToken::Constd)
    } else if kw(b"consth") {
        NodeToken::Value(NodeValueToken::Consth)
    } else if kw(b"zero") {
        NodeToken::Value(NodeValueToken::Zero)
    } else if kw(b"one") {
        NodeToken::Value(NodeValueToken::One)
    } else if kw(b"ones") {
        NodeToken::Value(NodeValueToken::Ones)
    } else if kw(b"input") {
        NodeToken::Value(NodeValueToken::Input)
    } else if kw(b"state") {
        NodeToken::Value(NodeValueToken::State)
    } else if kw(b"uext") {
        NodeToken::Value(NodeValueToken::ExtOp(NodeValueExtOpToken::Uext))
    } else if kw(b"sext") {
        NodeToken::Value(NodeValueToken::ExtOp(NodeValueExtOpToken::Sext))
    } else if kw(b"slice") {
        NodeToken::Value(NodeValueToken::Slice)
    } else if kw(b"not") {
        NodeToken::Value(NodeValueToken::UnaryOp(NodeValueUnaryOpToken::Not))
    } else if kw(b"add") {
        NodeToken::Value(NodeValueToken::BinaryOp(BinaryOp::Add))
    } else if kw(b"concat") {
        NodeToken::Value(NodeValueToken::BinaryOp(BinaryOp::Concat))
    } else if kw(b"ite") {
        NodeToken::Value(NodeValueToken::TernaryOp(TernaryOp::Ite))
    } else if kw(b"write") {
        NodeToken::Value(NodeValueToken::TernaryOp(TernaryOp::Write))
    } else {
        if let Some(t) = q::peek() {
            if is_lower(&t) {
                // a keyword outside the representatives
                unsupported();
            }
        }
        return Fallthrough;
    };
    Res(Ok(t))
}

pub fn sort_token(_input: &mut LineReader) -> Parsed<SortToken, ParseError> {
    if kw(b"bitvec") {
        Res(Ok(SortToken::Bitvec))
    } else if kw(b"array") {
        Res(Ok(SortToken::Array))
    } else {
        Fallthrough
    }
}

static SYM_A: &[u8] = b"x";
static SYM_B: &[u8] = b"s0";
static EMPTY_B: &[u8] = b"";
static COMMENT_A: &[u8] = b" c";

fn at_delim(with_space: bool) -> bool {
    match q::peek() {
        None => true,
        Some(t) => t.kind == 0 && (t.mag == b'\n' as u128 || (with_space && t.mag == b' ' as u128)),
    }
}

/// symbol name: maximal run up to a blank, a line end or the end of the input
pub fn symbol_name<'a>(_input: &'a mut LineReader) -> Parsed<&'a BStr, ParseError> {
    if at_delim(true) {
        return Fallthrough;
    }
    let r: &'static [u8] = if q::take_bytes(SYM_B) {
        SYM_B
    } else if q::take_bytes(SYM_A) {
        SYM_A
    } else {
        unsupported();
        return Fallthrough;
    };
    if !at_delim(true) {
        unsupported();
    }
    Res(Ok(r.into()))
}

/// comment body: everything up to (not including) the line end
pub fn comment_body<'a>(_input: &'a mut LineReader) -> Result<&'a BStr, ParseError> {
    let r: &'static [u8] = if q::take_bytes(COMMENT_A) { COMMENT_A } else { EMPTY_B };
    if !at_delim(false) {
        unsupported();
    }
    Ok(r.into())
}

pub fn eof(_input: &mut LineReader) -> Parsed<(), ParseError> {
    if q::len() == 0 {
        Res(Ok(()))
    } else {
        Fallthrough
    }
}
