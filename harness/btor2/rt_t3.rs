// T3 round trip for BTOR2 lines (C03): the REAL `Line::write_into` fills the ghost token queue
// (flussab::verif_q), the REAL `Parser::next_line` / `try_node` control code reads it back through
// the script-mode token stubs (harness/btor2/token_script.rs). Asserted: the parsed line equals
// the written line (derived PartialEq over the whole `Line`), and the line is consumed exactly.
// The parser starts from a state with stale buffers (left-overs of earlier lines).
// Included into a scratch copy of flussab-btor2/src/parser.rs.

use super::*;
use crate::btor2::{
    Array, Assignment, AssignmentKind, BinaryConst, BinaryOp, Const, DecimalConst, HexConst, Line, Node,
    NodeId, NodeVariant, Op, Output, SingleValueOutput, SingleValueOutputKind, Sort, TernaryOp, UnaryOp,
    Value, ValueVariant,
};
use crate::token::verif_script as st;
use bstr::BStr;
use flussab::verif_q as q;
use std::num::NonZeroU64;

fn any_id() -> NodeId {
    let v: u64 = kani::any();
    kani::assume(v != 0);
    NodeId(NonZeroU64::new(v).unwrap())
}

fn any_parser() -> Parser<'static> {
    // buffers carry arbitrary left-overs from earlier lines
    let mut node_buf: Vec<NodeId> = Vec::with_capacity(8);
    let n: usize = kani::any();
    kani::assume(n <= 2);
    if n >= 1 {
        node_buf.push(any_id());
    }
    if n >= 2 {
        node_buf.push(any_id());
    }
    let mut const_buf = String::new();
    if kani::any() {
        const_buf.push_str("11");
    }
    let mut symbol_buf: BString = Default::default();
    if kani::any() {
        symbol_buf.extend_from_slice(b"old");
    }
    Parser {
        reader: LineReader::new(DeferredReader::model_buffered([0u8; flussab::MODEL_N], 0)),
        node_buf,
        const_buf,
        symbol_buf,
    }
}

static SYM_A: &[u8] = b"x";
static SYM_B: &[u8] = b"s0";
static EMPTY_B: &[u8] = b"";
static COMMENT_A: &[u8] = b" c";

fn roundtrip(line: Line<'static>) {
    let mut p = any_parser();
    q::start_capture();
    let mut w = flussab::DeferredWriter::verif_with_capacity(std::io::sink(), 4);
    line.write_into(&mut w);
    unsafe {
        assert!(!q::AMBIG, "two tokens written back to back would be read as one");
        assert!(!q::OVERFLOW);
    }
    st::reset_script();
    let has_comment = line.has_comment();
    match p.next_line() {
        Ok(Some(got)) => {
            assert!(got == line, "BTOR2 line changed by write + parse");
            if has_comment {
                // the line end after a comment is left for the next call's skip_whitespace
                assert!(q::len() == 1 && q::next_is_byte(b'\n'), "comment line not consumed exactly");
            } else {
                assert!(q::len() == 0, "line not consumed exactly");
                assert!(unsafe { st::NEWLINES_OK } == 1);
            }
            assert!(unsafe { !q::UNSUPPORTED });
        }
        Ok(None) => assert!(false, "line read as end of input"),
        Err(e) => {
            std::mem::forget(e);
            assert!(false, "the parser rejects a line its own writer produced");
        }
    }
    std::mem::forget(p);
    std::mem::forget(w);
}

// The shape of the written line (which keyword, how many fields, which decoration) is CONCRETE on
// every path: each arm below runs its own write + parse. (With a symbolic shape the queue's fill
// level becomes symbolic and every queue access turns into an array-theory term: 5.7 GB and no
// verdict after 4 minutes for a comment line.) The numbers on the line stay symbolic.
fn with_decor(variant: NodeVariant<'static>) {
    let id = any_id();
    let k: u8 = kani::any();
    kani::assume(k < 4);
    if k == 0 {
        roundtrip(Line::Node(Node { id, variant, symbol: None, comment: None }));
    } else if k == 1 {
        roundtrip(Line::Node(Node { id, variant, symbol: Some(SYM_B.into()), comment: None }));
    } else if k == 2 {
        roundtrip(Line::Node(Node { id, variant, symbol: None, comment: Some(COMMENT_A.into()) }));
    } else {
        roundtrip(Line::Node(Node { id, variant, symbol: Some(SYM_A.into()), comment: Some(EMPTY_B.into()) }));
    }
}

fn value(variant: ValueVariant<'static>) -> NodeVariant<'static> {
    NodeVariant::Value(Value { sort: any_id(), variant })
}

#[kani::proof]
pub fn rt_comment_line() {
    if kani::any() {
        roundtrip(Line::Comment(EMPTY_B.into()));
    } else {
        roundtrip(Line::Comment(COMMENT_A.into()));
    }
}

#[kani::proof]
pub fn rt_sort() {
    if kani::any() {
        let w: u64 = kani::any();
        kani::assume(w != 0);
        with_decor(NodeVariant::Sort(Sort::BitVec(NonZeroU64::new(w).unwrap())));
    } else {
        with_decor(NodeVariant::Sort(Sort::Array(Array(any_id(), any_id()))));
    }
}

fn assignment(kind: AssignmentKind) -> NodeVariant<'static> {
    NodeVariant::Assignment(Assignment { state: any_id(), sort: any_id(), kind, value: any_id() })
}

#[kani::proof]
pub fn rt_assignment() {
    if kani::any() {
        with_decor(assignment(AssignmentKind::Init));
    } else {
        with_decor(assignment(AssignmentKind::Next));
    }
}

fn output(kind: SingleValueOutputKind) -> NodeVariant<'static> {
    NodeVariant::Output(Output::SingleValue(SingleValueOutput { kind, value: any_id() }))
}

#[kani::proof]
pub fn rt_output() {
    let k: u8 = kani::any();
    kani::assume(k < 4);
    if k == 0 {
        with_decor(output(SingleValueOutputKind::Output));
    } else if k == 1 {
        with_decor(output(SingleValueOutputKind::Bad));
    } else if k == 2 {
        with_decor(output(SingleValueOutputKind::Constraint));
    } else {
        with_decor(output(SingleValueOutputKind::Fair));
    }
}

#[kani::proof]
pub fn rt_justice() {
    // conditions live in a leaked array: the written line borrows them for 'static
    let conds: &'static mut [NodeId; 2] = Box::leak(Box::new([any_id(), any_id()]));
    if kani::any() {
        with_decor(NodeVariant::Output(Output::Justice(&conds[..1])));
    } else {
        with_decor(NodeVariant::Output(Output::Justice(&conds[..2])));
    }
}

#[kani::proof]
pub fn rt_const() {
    let k: u8 = kani::any();
    kani::assume(k < 6);
    if k == 0 {
        with_decor(value(ValueVariant::Const(Const::Binary(BinaryConst("101")))));
    } else if k == 1 {
        with_decor(value(ValueVariant::Const(Const::Decimal(DecimalConst("10")))));
    } else if k == 2 {
        with_decor(value(ValueVariant::Const(Const::Hex(HexConst("1")))));
    } else if k == 3 {
        with_decor(value(ValueVariant::Const(Const::Zero)));
    } else if k == 4 {
        with_decor(value(ValueVariant::Const(Const::One)));
    } else {
        with_decor(value(ValueVariant::Const(Const::Ones)));
    }
}

#[kani::proof]
pub fn rt_input_state() {
    if kani::any() {
        with_decor(value(ValueVariant::Input));
    } else {
        with_decor(value(ValueVariant::State));
    }
}

#[kani::proof]
pub fn rt_unary() {
    let k: u8 = kani::any();
    kani::assume(k < 4);
    if k == 0 {
        with_decor(value(ValueVariant::Op(Op::Unary(UnaryOp::Not, any_id()))));
    } else if k == 1 {
        with_decor(value(ValueVariant::Op(Op::Unary(UnaryOp::Uext(kani::any()), any_id()))));
    } else if k == 2 {
        with_decor(value(ValueVariant::Op(Op::Unary(UnaryOp::Sext(kani::any()), any_id()))));
    } else {
        with_decor(value(ValueVariant::Op(Op::Unary(UnaryOp::Slice(kani::any(), kani::any()), any_id()))));
    }
}

#[kani::proof]
pub fn rt_binary_ternary() {
    let k: u8 = kani::any();
    kani::assume(k < 4);
    if k == 0 {
        with_decor(value(ValueVariant::Op(Op::Binary(BinaryOp::Add, [any_id(), any_id()]))));
    } else if k == 1 {
        with_decor(value(ValueVariant::Op(Op::Binary(BinaryOp::Concat, [any_id(), any_id()]))));
    } else if k == 2 {
        with_decor(value(ValueVariant::Op(Op::Ternary(TernaryOp::Ite, [any_id(), any_id(), any_id()]))));
    } else {
        with_decor(value(ValueVariant::Op(Op::Ternary(TernaryOp::Write, [any_id(), any_id(), any_id()]))));
    }
}

#[kani::proof]
pub fn reach_btor2_t3() {
    // vacuity twin of rt_assignment: the final assertion must be reported as violated
    with_decor(assignment(AssignmentKind::Init));
    assert!(false, "reachability witness");
}
