// T0 harnesses for flussab-btor2's private token layer on the reader model R.
// Included into a scratch copy of flussab-btor2/src/token.rs as `mod verif_token`.

use super::*;
use crate::error::InnerParseError;

include!("@VERIF@/harness/common/prelude.rs");

fn fmt_stub(_args: std::fmt::Arguments<'_>) -> String {
    String::new()
}

fn lossy_stub(_v: &[u8]) -> std::borrow::Cow<'_, str> {
    std::borrow::Cow::Borrowed("")
}

fn utf8_stub(v: &[u8]) -> Result<&str, std::str::Utf8Error> {
    Ok(unsafe { std::str::from_utf8_unchecked(v) })
}

// ---------------------------------------------------------------------------------------------
// single byte tokens, whitespace, end of input

#[kani::proof]
pub fn single_byte_tokens() {
    let (mut lr, pre) = any_line_reader(Refill::Nondet);
    let s = pre.st.pos;
    let which: u8 = kani::any();
    kani::assume(which < 3);
    let want = match which {
        0 => b'\n',
        1 => b' ',
        _ => b';',
    };
    let r = match which {
        0 => out_of(newline(&mut lr)),
        1 => out_of(space(&mut lr)),
        _ => out_of(comment_start(&mut lr)),
    };
    match r {
        Out::Ok(()) => {
            assert!(byte_at(&pre.st, s) == Some(want) && consumed(&lr, &pre) == 1);
            // C09: a line end is consumed without looking at anything after it
            check_lookahead(&lr, &pre, s + 1);
        }
        Out::Fall => assert!(byte_at(&pre.st, s) != Some(want) && consumed(&lr, &pre) == 0),
        _ => assert!(false),
    }
    check_line_tracking(&lr, &pre, false);
    check_error_not_lost(&lr, &pre, false);
    std::mem::forget(lr);
}

#[kani::proof]
pub fn skip_whitespace_token() {
    let (mut lr, pre) = any_line_reader(Refill::Nondet);
    skip_whitespace(&mut lr);
    let mut i = pre.st.pos;
    while i < pre.st.len && (pre.st.data[i] == b' ' || pre.st.data[i] == b'\n') {
        i += 1;
    }
    assert!(consumed(&lr, &pre) == i - pre.st.pos, "spaces and line feeds only");
    check_line_tracking(&lr, &pre, false);
    check_error_not_lost(&lr, &pre, false);
    check_lookahead(&lr, &pre, i + 1);
    kani::cover!(lr.line >= pre.line + 2, "two line feeds skipped");
    std::mem::forget(lr);
}

#[kani::proof]
pub fn eof_token() {
    let (mut lr, pre) = any_line_reader(Refill::Nondet);
    let r = out_of(eof(&mut lr));
    match r {
        Out::Ok(()) => {
            assert!(pre.st.pos == pre.st.len);
            assert!(!lr.reader.m_err_parked);
        }
        Out::Fall => assert!(pre.st.pos < pre.st.len || lr.reader.m_err_parked),
        _ => assert!(false),
    }
    assert!(consumed(&lr, &pre) == 0);
    check_error_not_lost(&lr, &pre, false);
    std::mem::forget(lr);
}

// ---------------------------------------------------------------------------------------------
// numbers

#[kani::proof]
#[kani::stub(std::str::from_utf8, utf8_stub)]
pub fn uint_u64() {
    flussab::verif_use_spec(true);
    let (mut lr, pre) = any_line_reader(Refill::Nondet);
    let r = uint(&mut lr);
    let s = pre.st.pos;
    let (cnt, v, big) = ref_digits(&pre.st, s);
    let fits = !big && v <= u64::MAX as u128;
    let leading_zero = cnt >= 2 && pre.st.data[s] == b'0';
    match r {
        Fallthrough => assert!(cnt == 0 && consumed(&lr, &pre) == 0),
        Res(Ok(x)) => {
            assert!(cnt > 0 && fits && !leading_zero);
            assert!(x as u128 == v);
            assert!(consumed(&lr, &pre) == cnt);
            check_lookahead(&lr, &pre, s + cnt + 1);
        }
        Res(Err(txt)) => {
            assert!(cnt > 0 && (!fits || leading_zero));
            assert!(consumed(&lr, &pre) == 0);
            std::mem::forget(txt);
        }
    }
    check_line_tracking(&lr, &pre, false);
    check_error_not_lost(&lr, &pre, false);
    std::mem::forget(lr);
}

/// positive_int / nonnegative_int incl. the location of their range error (C08, D3).
#[kani::proof]
#[kani::stub(std::fmt::format, fmt_stub)]
#[kani::stub(std::str::from_utf8, utf8_stub)]
pub fn positive_and_nonnegative_int() {
    flussab::verif_use_spec(true);
    let (mut lr, pre) = any_line_reader(Refill::Nondet);
    let s = pre.st.pos;
    let positive: bool = kani::any();
    let (cnt, v, big) = ref_digits(&pre.st, s);
    let leading_zero = cnt >= 2 && pre.st.data[s] == b'0';
    let r = if positive {
        out_of(positive_int(&mut lr, "n").map(|x| x.get()))
    } else {
        out_of(nonnegative_int(&mut lr, "n"))
    };
    let starts_zero = byte_at(&pre.st, s) == Some(b'0');
    match r {
        Out::Fall => assert!(cnt == 0 || (positive && starts_zero)),
        Out::Ok(x) => {
            assert!(cnt > 0 && !big && !leading_zero && x as u128 == v);
            assert!(!positive || x != 0);
            assert!(consumed(&lr, &pre) == cnt);
        }
        Out::Syntax(loc) => {
            assert!(cnt > 0 && (big || v > u64::MAX as u128 || leading_zero));
            // range errors designate the offending number
            check_loc_at(loc, &pre, s);
        }
        Out::Io => assert!(cnt > 0),
    }
    check_error_not_lost(&lr, &pre, r == Out::Io);
    kani::cover!(matches!(r, Out::Syntax(_)) && !positive, "leading zeros rejected with a location");
    std::mem::forget(lr);
}

// ---------------------------------------------------------------------------------------------
// comment body and symbol names

#[kani::proof]
pub fn comment_body_token() {
    let (mut lr, pre) = any_line_reader(Refill::Nondet);
    let s = pre.st.pos;
    let mut i = s;
    while i < pre.st.len && pre.st.data[i] != b'\n' {
        i += 1;
    }
    let found_lf = i < pre.st.len;
    let r = match comment_body(&mut lr) {
        Ok(c) => Out::Ok(c.len()),
        Err(e) => {
            let (io, loc) = classify_err(e);
            if io {
                Out::Io
            } else {
                Out::Syntax(loc)
            }
        }
    };
    let n = match r {
        Out::Ok(n) => n,
        Out::Io => {
            // only legitimate when the comment ran into the end of a failed source
            assert!(!found_lf);
            check_error_not_lost(&lr, &pre, true);
            std::mem::forget(lr);
            return;
        }
        _ => {
            assert!(false, "comment_body never produces a syntax error");
            0
        }
    };
    assert!(n == i - s, "everything up to, not including, the line feed");
    assert!(consumed(&lr, &pre) == i - s);
    check_line_tracking(&lr, &pre, false);
    // C09: the LF itself is looked at, nothing after it
    check_lookahead(&lr, &pre, i + 1);
    // C04: a comment that ends where a FAILING source stopped is not a complete comment: handing
    // it out as an item makes the item differ from the one a fault-free run returns
    if !found_lf {
        assert!(!lr.reader.m_err_parked, "comment cut short by a failing source handed out as complete");
    }
    check_error_not_lost(&lr, &pre, false);
    kani::cover!(!found_lf && n >= 2, "comment ends at end of input");
    std::mem::forget(lr);
}

#[kani::proof]
pub fn symbol_name_token() {
    let (mut lr, pre) = any_line_reader(Refill::Nondet);
    let s = pre.st.pos;
    let mut i = s;
    while i < pre.st.len && pre.st.data[i] != b'\n' && pre.st.data[i] != b' ' {
        i += 1;
    }
    let r = match symbol_name(&mut lr) {
        Fallthrough => Out::Fall,
        Res(Ok(name)) => Out::Ok(name.len()),
        Res(Err(e)) => {
            std::mem::forget(e);
            Out::Io
        }
    };
    match r {
        Out::Fall => assert!(i == s && consumed(&lr, &pre) == 0),
        Out::Ok(n) => {
            assert!(n == i - s && n > 0);
            assert!(consumed(&lr, &pre) == n);
            check_lookahead(&lr, &pre, i + 1);
        }
        _ => assert!(false),
    }
    check_line_tracking(&lr, &pre, false);
    check_error_not_lost(&lr, &pre, false);
    std::mem::forget(lr);
}

// ---------------------------------------------------------------------------------------------
// keyword scanner: SWAR fast path == cold path (C01), raw load in bounds (C14), look-ahead (C09)

fn is_lower(b: u8) -> bool {
    b >= b'a' && b <= b'z'
}

#[kani::proof]
pub fn lowercase_u64_fast_eq_cold() {
    let mut a = DeferredReader::model_any(Refill::Nondet);
    let mut b = a.fork(Refill::Nondet, false);
    let pre = a.snapshot();
    let off: usize = kani::any();
    kani::assume(off <= 2);
    let (w1, n1) = ascii_lowercase_u64(a_mut(&mut a), off);
    let (w2, n2) = ascii_lowercase_u64_cold(a_mut(&mut b), off);
    // reference: run of lowercase letters, at most 8, zero padded little endian word
    let s = pre.pos + off;
    let mut k = 0usize;
    let mut word: u64 = 0;
    while k < 8 && s + k < pre.len && is_lower(pre.data[s + k]) {
        word |= (pre.data[s + k] as u64) << (8 * k);
        k += 1;
    }
    assert!(n2 == k && w2 == word, "cold path == reference");
    assert!(n1 == k && w1 == word, "fast path == cold path for every buffered amount");
    assert!(a.m_pos == pre.pos && b.m_pos == pre.pos);
    // look-ahead: at most one byte past the run (none past the 8th letter)
    let lim = if k == 8 { s + 8 } else { s + k + 1 };
    assert!(b.m_hw <= max2(pre.pos, lim), "cold path requests nothing beyond the deciding byte");
    assert!(a.m_hw <= max2(pre.pos, lim), "fast path requests nothing beyond the deciding byte");
    kani::cover!(a.m_refills == 0 && a.m_avail >= off + 8 && k == 8, "fast path, eight letters");
    kani::cover!(a.m_refills == 0 && a.m_avail >= off + 8 && k == 3, "fast path, three letters");
    kani::cover!(a.m_refills > 0 && k >= 2, "cold path with refills");
    std::mem::forget(a);
    std::mem::forget(b);
}

fn a_mut<'x, 'y>(r: &'x mut DeferredReader<'y>) -> &'x mut DeferredReader<'y> {
    r
}

#[kani::proof]
pub fn lowercase_raw_load_in_bounds() {
    let data: [u8; MODEL_N] = kani::any();
    let pos: usize = kani::any();
    kani::assume(pos <= MODEL_N);
    let mut r = DeferredReader::model_with(data, MODEL_N, pos, Refill::Nondet);
    let off: usize = kani::any();
    kani::assume(off <= 2);
    let _ = ascii_lowercase_u64(&mut r, off);
    kani::cover!(r.m_refills == 0 && r.m_avail >= off + 8, "fast path taken");
    std::mem::forget(r);
}

/// The keyword text handed to the (pure) keyword table is exactly the run of lowercase letters at
/// the cursor, for every buffered amount and refill schedule (the scanner proceeds in 8-byte steps).
#[kani::proof]
pub fn lowercase_run_schedule_independent() {
    let (mut lr, pre) = any_line_reader(Refill::Nondet);
    let s = pre.st.pos;
    // the (private) scanner is only ever called at the cursor
    let off: usize = 0;
    let mut k = 0usize;
    while s + off + k < pre.st.len && is_lower(pre.st.data[s + off + k]) {
        k += 1;
    }
    let n = ascii_lowercase(&mut lr.reader, off).len();
    assert!(n == k, "exactly the run of lowercase letters");
    assert!(consumed(&lr, &pre) == 0);
    check_lookahead(&lr, &pre, s + off + k + 1);
    kani::cover!(k >= 9 && lr.reader.m_refills >= 1, "run longer than one word, with refill");
    kani::cover!(k == 8, "run of exactly eight letters");
    std::mem::forget(lr);
}

/// node_token / sort_token consume the keyword's length or nothing; keyword lookup itself is a pure
/// function of the scanned text.
#[kani::proof]
pub fn keyword_tokens_consume_run_or_nothing() {
    let (mut lr, pre) = any_line_reader(Refill::All);
    let s = pre.st.pos;
    let mut k = 0usize;
    while s + k < pre.st.len && is_lower(pre.st.data[s + k]) {
        k += 1;
    }
    let sort: bool = kani::any();
    let c1 = if sort {
        code_sort(sort_token(&mut lr))
    } else {
        code_node(node_token(&mut lr))
    };
    assert!(c1 != 9999);
    if c1 == 0 {
        assert!(consumed(&lr, &pre) == 0);
    } else {
        assert!(consumed(&lr, &pre) == k, "a keyword is the whole run of lowercase letters");
        assert!(k >= 2 && k <= 10);
    }
    check_error_not_lost(&lr, &pre, false);
    kani::cover!(!sort && c1 != 0 && k == 3, "three letter keyword");
    kani::cover!(sort && c1 != 0, "sort keyword");
    kani::cover!(c1 == 0 && k >= 3, "letters that are no keyword");
    std::mem::forget(lr);
}

fn code_sort(p: Parsed<SortToken, ParseError>) -> u32 {
    match p {
        Fallthrough => 0,
        Res(Ok(SortToken::Bitvec)) => 1,
        Res(Ok(SortToken::Array)) => 2,
        Res(Err(e)) => {
            std::mem::forget(e);
            9999
        }
    }
}

fn code_node(p: Parsed<NodeToken, ParseError>) -> u32 {
    match p {
        Fallthrough => 0,
        Res(Err(e)) => {
            std::mem::forget(e);
            9999
        }
        Res(Ok(t)) => match t {
            NodeToken::Sort => 1,
            NodeToken::Assignment(k) => 10 + k as u32,
            NodeToken::Output(k) => 20 + k as u32,
            NodeToken::Justice => 2,
            NodeToken::Value(v) => match v {
                NodeValueToken::Const => 30,
                NodeValueToken::Constd => 31,
                NodeValueToken::Consth => 32,
                NodeValueToken::Ones => 33,
                NodeValueToken::One => 34,
                NodeValueToken::Zero => 35,
                NodeValueToken::Input => 36,
                NodeValueToken::State => 37,
                NodeValueToken::ExtOp(NodeValueExtOpToken::Uext) => 38,
                NodeValueToken::ExtOp(NodeValueExtOpToken::Sext) => 39,
                NodeValueToken::Slice => 40,
                NodeValueToken::UnaryOp(u) => 50 + u as u32,
                NodeValueToken::BinaryOp(b) => 100 + b as u32,
                NodeValueToken::TernaryOp(t) => 200 + t as u32,
            },
        },
    }
}

// ---------------------------------------------------------------------------------------------
// constants

#[kani::proof]
#[kani::stub(std::fmt::format, fmt_stub)]
#[kani::stub(std::string::String::from_utf8_lossy, lossy_stub)]
pub fn required_constants() {
    let (mut lr, pre) = any_line_reader(Refill::Nondet);
    let s = pre.st.pos;
    let which: u8 = kani::any();
    kani::assume(which < 3);
    let mut i = s;
    match which {
        0 => {
            while i < pre.st.len && (pre.st.data[i] == b'0' || pre.st.data[i] == b'1') {
                i += 1;
            }
        }
        1 => {
            if byte_at(&pre.st, i) == Some(b'-') {
                i += 1;
            }
            while i < pre.st.len && is_digit(pre.st.data[i]) {
                i += 1;
            }
        }
        _ => {
            while i < pre.st.len && pre.st.data[i].is_ascii_hexdigit() {
                i += 1;
            }
        }
    }
    let r = match which {
        0 => out_of_result(required_binary_constant(&mut lr).map(|t| t.len())),
        1 => out_of_result(required_decimal_constant(&mut lr).map(|t| t.len())),
        _ => out_of_result(required_hex_constant(&mut lr).map(|t| t.len())),
    };
    match r {
        Out::Ok(n) => {
            assert!(n == i - s && n > 0);
            assert!(consumed(&lr, &pre) == n);
            check_lookahead(&lr, &pre, i + 1);
        }
        Out::Syntax(loc) => {
            assert!(i == s);
            check_loc_at(loc, &pre, s);
        }
        Out::Io => assert!(i == s),
        Out::Fall => assert!(false),
    }
    check_error_not_lost(&lr, &pre, r == Out::Io);
    std::mem::forget(lr);
}

#[kani::proof]
#[kani::stub(std::fmt::format, fmt_stub)]
#[kani::stub(std::string::String::from_utf8_lossy, lossy_stub)]
pub fn unexpected_total() {
    let (mut lr, pre) = any_line_reader(Refill::Nondet);
    let e = unexpected(&mut lr, "something");
    let (io, loc) = classify_err(e);
    if io {
        check_error_not_lost(&lr, &pre, true);
    } else {
        check_loc_at(loc, &pre, pre.st.pos);
        assert!(!lr.reader.m_err_parked);
    }
    assert!(consumed(&lr, &pre) == 0);
    std::mem::forget(lr);
}

#[kani::proof]
pub fn reach_btor2_token() {
    let (mut lr, pre) = any_line_reader(Refill::Nondet);
    let c = code_node(node_token(&mut lr));
    if c != 0 && consumed(&lr, &pre) == 5 && lr.reader.m_refills >= 2 {
        assert!(false, "reachability witness");
    }
    std::mem::forget(lr);
}
