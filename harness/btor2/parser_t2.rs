// T2: control logic of the BTOR2 parser (next_line / try_node) from a symbolic parser state with
// the token layer replaced by contract stubs. Included into flussab-btor2/src/parser.rs.

use super::*;
use crate::btor2::Output;
use crate::token::verif_stub as st;
use std::num::NonZeroU64;

fn any_parser() -> Parser<'static> {
    // buffers carry arbitrary left-overs from earlier lines
    let mut node_buf: Vec<NodeId> = Vec::with_capacity(8);
    let n: usize = kani::any();
    kani::assume(n <= 2);
    let a: u64 = kani::any();
    let b: u64 = kani::any();
    kani::assume(a != 0 && b != 0);
    if n >= 1 {
        node_buf.push(NodeId(NonZeroU64::new(a).unwrap()));
    }
    if n >= 2 {
        node_buf.push(NodeId(NonZeroU64::new(b).unwrap()));
    }
    Parser {
        // the token layer is stubbed, so the reader is never looked at (no parked error in it)
        reader: LineReader::new(DeferredReader::model_buffered([0u8; flussab::MODEL_N], 0)),
        node_buf,
        const_buf: String::new(),
        symbol_buf: Default::default(),
    }
}

fn next_line_body(justice_only: bool, max_fuel: usize, reach: bool) {
    let mut p = any_parser();
    let fuel: usize = kani::any();
    kani::assume(fuel <= max_fuel);
    st::reset(fuel);
    unsafe {
        // split by keyword class to keep each query small
        kani::assume((st::NODE_TOKEN_CHOICE % 16 == 3) == justice_only);
    }
    // outcome: 0 = Ok(None), 1 = Ok(Some(comment)), 2 = Ok(Some(node)), 3 = Err;
    // for a justice node: number of conditions and the first two ids
    let (outcome, is_justice, jn, j0, j1, has_comment) = match p.next_line() {
        Ok(None) => (0u8, false, 0usize, 0u64, 0u64, false),
        Ok(Some(Line::Comment(_))) => (1, false, 0, 0, 0, true),
        Ok(Some(Line::Node(node))) => match node.variant {
            NodeVariant::Output(Output::Justice(conds)) => {
                let n = conds.len();
                let c0 = if n >= 1 { conds[0].0.get() } else { 0 };
                let c1 = if n >= 2 { conds[1].0.get() } else { 0 };
                (2, true, n, c0, c1, node.comment.is_some())
            }
            _ => (2, false, 0, 0, 0, node.comment.is_some()),
        },
        Err(e) => {
            std::mem::forget(e);
            (3, false, 0, 0, 0, false)
        }
    };
    unsafe {
        match outcome {
            0 => {
                // clean end only through the eof token of a healthy source
                assert!(st::EOF_OK == 1 && st::AT_END && !st::IO_FAILED);
            }
            1 | 2 => {
                if is_justice {
                    // the conditions are exactly the ids read on THIS line (ids[0] is the node id),
                    // as many as the declared count, whatever the buffers held before
                    assert!(jn as u64 == st::POS_INT, "number of justice conditions == declared count");
                    assert!(st::IDS_N == jn + 1);
                    if jn >= 1 {
                        assert!(j0 == st::IDS[1], "first justice condition is not the first id of this line");
                    }
                    if jn >= 2 {
                        assert!(j1 == st::IDS[2]);
                    }
                }
                // C09: a line without comment is handed out right after its line end; a line with
                // a comment right after the comment body
                if has_comment {
                    assert!(st::COMMENT_BODY_CALLS == 1);
                } else {
                    assert!(st::NEWLINES_OK == 1 && st::CALLS_AFTER_NEWLINE == 0);
                }
                // C04: nothing is handed out from the end of a failed source
                assert!(!(st::AT_END && st::IO_FAILED));
            }
            _ => assert!(st::ERRS >= 1 || st::IO_FAILED),
        }
        kani::cover!(!justice_only || (outcome == 2 && is_justice && jn == 1), "justice line with one condition");
        kani::cover!(justice_only || (outcome == 2 && !is_justice && has_comment), "node with comment");
        kani::cover!(outcome == 1, "comment line");
        kani::cover!(outcome == 0, "clean end");
        if reach && outcome == 2 && is_justice && jn == 1 {
            assert!(false, "reachability witness");
        }
    }
    std::mem::forget(p);
}

#[kani::proof]
pub fn next_line_justice() {
    next_line_body(true, 8, false);
}

#[kani::proof]
pub fn next_line_other() {
    next_line_body(false, 10, false);
}

#[kani::proof]
pub fn reach_btor2_parser() {
    next_line_body(true, 8, true);
}

