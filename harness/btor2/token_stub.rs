// Contract stubs for flussab-btor2's token layer (T2); see harness/cnf/token_stub.rs.

use super::*;
use crate::error::InnerParseError;
use flussab::text::{LineColumn, SyntaxError};

pub static mut ON: bool = false;
pub static mut FUEL: usize = 0;
pub static mut CALLS: usize = 0;
pub static mut ERRS: usize = 0;
pub static mut NEWLINES_OK: usize = 0;
pub static mut CALLS_AFTER_NEWLINE: usize = 0;
pub static mut EOF_OK: usize = 0;
pub static mut AT_END: bool = false;
pub static mut IO_FAILED: bool = false;
pub static mut NODE_TOKEN_CHOICE: u8 = 0;
pub const MAXREC: usize = 6;
pub static mut IDS_N: usize = 0; // node/sort ids handed out, in order
pub static mut IDS: [u64; MAXREC] = [0; MAXREC];
pub static mut POS_INT: u64 = 0; // last value returned by required_positive_int
pub static mut COMMENT_BODY_CALLS: usize = 0;

pub fn on() -> bool {
    unsafe { ON }
}

pub fn reset(fuel: usize) {
    unsafe {
        ON = true;
        FUEL = fuel;
        CALLS = 0;
        ERRS = 0;
        NEWLINES_OK = 0;
        CALLS_AFTER_NEWLINE = 0;
        EOF_OK = 0;
        IDS_N = 0;
        COMMENT_BODY_CALLS = 0;
        AT_END = kani::any();
        IO_FAILED = kani::any();
        NODE_TOKEN_CHOICE = kani::any();
    }
}

fn tick() {
    unsafe {
        CALLS += 1;
        if NEWLINES_OK > 0 {
            CALLS_AFTER_NEWLINE += 1;
        }
    }
}

fn consume() -> bool {
    unsafe {
        if FUEL == 0 || AT_END {
            false
        } else if kani::any() {
            FUEL -= 1;
            true
        } else {
            false
        }
    }
}

pub fn any_err() -> ParseError {
    unsafe {
        ERRS += 1;
    }
    Box::new(InnerParseError::SyntaxError(SyntaxError {
        location: LineColumn { line: 1, column: 1 },
        msg: String::new(),
    }))
}

pub fn unexpected(_input: &mut LineReader, _expected: &str) -> ParseError {
    tick();
    any_err()
}

pub fn skip_whitespace(_input: &mut LineReader) {
    tick();
}

fn opt_unit() -> Parsed<(), ParseError> {
    tick();
    if consume() {
        Res(Ok(()))
    } else {
        Fallthrough
    }
}

pub fn newline(_input: &mut LineReader) -> Parsed<(), ParseError> {
    tick();
    if consume() {
        unsafe {
            NEWLINES_OK += 1;
        }
        Res(Ok(()))
    } else {
        Fallthrough
    }
}

pub fn space(_input: &mut LineReader) -> Parsed<(), ParseError> {
    opt_unit()
}

pub fn comment_start(_input: &mut LineReader) -> Parsed<(), ParseError> {
    opt_unit()
}

pub fn required_space(_input: &mut LineReader) -> Result<(), ParseError> {
    tick();
    if consume() {
        Ok(())
    } else {
        Err(any_err())
    }
}

fn any_id() -> NodeId {
    let v: u64 = kani::any();
    kani::assume(v != 0);
    unsafe {
        if IDS_N < MAXREC {
            IDS[IDS_N] = v;
        }
        IDS_N += 1;
    }
    NodeId(NonZeroU64::new(v).unwrap())
}

pub fn node_id(_input: &mut LineReader) -> Parsed<NodeId, ParseError> {
    tick();
    let k: u8 = kani::any();
    if k == 0 || !consume() {
        return Fallthrough;
    }
    if k == 1 {
        return Res(Err(any_err()));
    }
    Res(Ok(any_id()))
}

pub fn required_node_id(_input: &mut LineReader) -> Result<NodeId, ParseError> {
    tick();
    if consume() {
        Ok(any_id())
    } else {
        Err(any_err())
    }
}

pub fn required_sort_id(input: &mut LineReader) -> Result<NodeId, ParseError> {
    required_node_id(input)
}

pub fn required_positive_int(_input: &mut LineReader, _what: &str) -> Result<NonZeroU64, ParseError> {
    tick();
    if consume() {
        let v: u64 = kani::any();
        kani::assume(v != 0);
        unsafe {
            POS_INT = v;
        }
        Ok(NonZeroU64::new(v).unwrap())
    } else {
        Err(any_err())
    }
}

pub fn required_nonnegative_int(_input: &mut LineReader, _what: &str) -> Result<u64, ParseError> {
    tick();
    if consume() {
        Ok(kani::any())
    } else {
        Err(any_err())
    }
}

static EMPTY: &str = "";

pub fn required_constant<'a>(_input: &'a mut LineReader) -> Result<&'a str, ParseError> {
    tick();
    if consume() {
        Ok(EMPTY)
    } else {
        Err(any_err())
    }
}

pub fn node_token(_input: &mut LineReader) -> Parsed<NodeToken, ParseError> {
    tick();
    if !consume() {
        return Fallthrough;
    }
    // a representative of every arm of the parser's dispatch
    let t = match unsafe { NODE_TOKEN_CHOICE } % 16 {
        0 => NodeToken::Sort,
        1 => NodeToken::Assignment(AssignmentKind::Init),
        2 => NodeToken::Output(SingleValueOutputKind::Bad),
        3 => NodeToken::Justice,
        4 => NodeToken::Value(NodeValueToken::Const),
        5 => NodeToken::Value(NodeValueToken::Constd),
        6 => NodeToken::Value(NodeValueToken::Consth),
        7 => NodeToken::Value(NodeValueToken::Ones),
        8 => NodeToken::Value(NodeValueToken::Input),
        9 => NodeToken::Value(NodeValueToken::ExtOp(NodeValueExtOpToken::Uext)),
        10 => NodeToken::Value(NodeValueToken::Slice),
        11 => NodeToken::Value(NodeValueToken::UnaryOp(NodeValueUnaryOpToken::Not)),
        12 => NodeToken::Value(NodeValueToken::BinaryOp(BinaryOp::Add)),
        13 => NodeToken::Value(NodeValueToken::TernaryOp(TernaryOp::Ite)),
        14 => NodeToken::Value(NodeValueToken::State),
        _ => NodeToken::Assignment(AssignmentKind::Next),
    };
    Res(Ok(t))
}

pub fn sort_token(_input: &mut LineReader) -> Parsed<SortToken, ParseError> {
    tick();
    if !consume() {
        return Fallthrough;
    }
    if kani::any() {
        Res(Ok(SortToken::Bitvec))
    } else {
        Res(Ok(SortToken::Array))
    }
}

static EMPTY_B: &[u8] = b"";

pub fn symbol_name<'a>(_input: &'a mut LineReader) -> Parsed<&'a BStr, ParseError> {
    tick();
    if consume() {
        Res(Ok(EMPTY_B.into()))
    } else {
        Fallthrough
    }
}

pub fn comment_body<'a>(_input: &'a mut LineReader) -> Result<&'a BStr, ParseError> {
    tick();
    unsafe {
        COMMENT_BODY_CALLS += 1;
        // contract (comment_body_token): fails iff the comment ran into the end of a failed source
        if AT_END && IO_FAILED {
            return Err(any_err());
        }
    }
    Ok(EMPTY_B.into())
}

pub fn eof(_input: &mut LineReader) -> Parsed<(), ParseError> {
    tick();
    unsafe {
        if AT_END && !IO_FAILED {
            EOF_OK += 1;
            Res(Ok(()))
        } else {
            Fallthrough
        }
    }
}
