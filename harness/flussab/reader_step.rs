// One-step inductive harnesses over the REAL `DeferredReader` (C02, C09 reader half, C10, C14).
// Included into a scratch copy of flussab/src/deferred_reader.rs as
//   #[cfg(kani)] mod verif_reader { include!("/verif/harness/flussab/reader_step.rs"); }
// so that `super::*` gives access to the private fields. Nothing here is compiled outside Kani.
//
// Ghost source: the stream is never materialised. One symbolic absolute offset `W` with symbolic
// byte `WB` stands for every stream position ("witness trick"): the source stub writes WB when it
// delivers offset W and leaves every other byte alone; the invariant says "if offset W is inside
// the exposed window then the window shows WB there".

use super::*;
use std::io::{self, Read};

include!(concat!(env!("CARGO_MANIFEST_DIR"), "/src/verif_params.rs"));
const BIG: usize = 1 << 40;

static mut G_DELIVERED: usize = 0; // absolute offset of the next byte the source will deliver
static mut G_LEN: usize = 0; // absolute length of the source stream
static mut G_W: usize = 0; // witness offset
static mut G_WB: u8 = 0; // witness byte
static mut G_ENDED: bool = false; // the source returned Ok(0) or a terminal error
static mut G_CALLS: usize = 0;
static mut G_OK_READS: usize = 0;
static mut G_INTR: usize = 0;
static mut G_CALLED_AFTER_END: bool = false;
static mut G_EMPTY_SLICE: bool = false;
static mut G_OVERLONG: bool = false; // source misbehaves: returns n > slice length (C14 only)
static mut G_ALLOW_OVERLONG: bool = false;
static mut G_FAILED: bool = false; // the source returned a terminal error during this operation

struct Src;

impl Read for Src {
    fn read(&mut self, out: &mut [u8]) -> io::Result<usize> {
        unsafe {
            if G_ENDED {
                G_CALLED_AFTER_END = true;
            }
            G_CALLS += 1;
            if out.is_empty() {
                G_EMPTY_SLICE = true;
                return Ok(0);
            }
            let choice: u8 = kani::any();
            if choice == 0 && G_INTR < 2 {
                G_INTR += 1;
                return Err(io::Error::from(io::ErrorKind::Interrupted));
            }
            if choice == 1 {
                G_ENDED = true;
                G_FAILED = true;
                // any non-Interrupted kind is a terminal failure
                let kind = match kani::any::<u8>() % 6 {
                    0 => io::ErrorKind::Other,
                    1 => io::ErrorKind::UnexpectedEof,
                    2 => io::ErrorKind::BrokenPipe,
                    3 => io::ErrorKind::WouldBlock,
                    4 => io::ErrorKind::TimedOut,
                    _ => io::ErrorKind::InvalidData,
                };
                return Err(io::Error::from(kind));
            }
            if G_ALLOW_OVERLONG && choice == 2 {
                // contract violation of Read: claims more bytes than the slice holds
                G_OVERLONG = true;
                let n: usize = kani::any();
                kani::assume(n > out.len());
                return Ok(n);
            }
            let remaining = G_LEN - G_DELIVERED;
            if remaining == 0 {
                G_ENDED = true;
                return Ok(0);
            }
            let k: usize = kani::any();
            kani::assume(k >= 1 && k <= remaining && k <= out.len());
            if G_W >= G_DELIVERED && G_W - G_DELIVERED < k {
                out[G_W - G_DELIVERED] = G_WB;
            }
            G_DELIVERED += k;
            G_OK_READS += 1;
            Ok(k)
        }
    }
}

/// Ghost view of the pre-state, used to state post-conditions.
#[derive(Clone, Copy)]
pub struct Pre {
    pub cur: usize,      // absolute stream offset of the cursor
    pub position: usize, // what position() returned (arbitrary, wraps)
    pub mark: usize,     // what mark() returned
    pub valid_len: usize,
    pub pos_in_buf: usize,
    pub buf_len: usize,
    pub chunk: usize,
    pub complete: bool,
    pub has_err: bool,
}

/// An arbitrary reader state satisfying the representation invariant `Inv`, plus its ghost view.
pub fn any_reader() -> (DeferredReader<'static>, Pre) {
    any_reader_n::<CAP>()
}

/// Same with an explicit bound on the pre-state buffer size.
pub fn any_reader_n<const C: usize>() -> (DeferredReader<'static>, Pre) {
    let buf_len: usize = kani::any();
    kani::assume(buf_len <= C);
    let arr: [u8; C] = kani::any();
    let mut buf = arr.to_vec();
    buf.truncate(buf_len);

    let pos_in_buf: usize = kani::any();
    let valid_len: usize = kani::any();
    kani::assume(pos_in_buf <= buf_len);
    kani::assume(valid_len <= buf_len - pos_in_buf);
    let chunk: usize = kani::any();
    kani::assume(chunk >= 1 && chunk <= MAXCHUNK);
    let complete: bool = kani::any();
    let has_err: bool = kani::any();
    kani::assume(!has_err || complete);
    let pos_of_buf: usize = kani::any();
    let mark_in_buf: usize = kani::any();

    let cur: usize = kani::any();
    kani::assume(cur <= BIG);
    let len: usize = kani::any();
    kani::assume(len >= cur + valid_len && len <= 2 * BIG);
    let w: usize = kani::any();
    let wb: u8 = kani::any();
    if w >= cur && w - cur < valid_len {
        kani::assume(buf[pos_in_buf + (w - cur)] == wb);
    }
    unsafe {
        G_DELIVERED = cur + valid_len;
        G_LEN = len;
        G_W = w;
        G_WB = wb;
        G_ENDED = complete;
        G_CALLS = 0;
        G_OK_READS = 0;
        G_INTR = 0;
        G_CALLED_AFTER_END = false;
        G_EMPTY_SLICE = false;
        G_OVERLONG = false;
        G_ALLOW_OVERLONG = false;
        G_FAILED = false;
    }
    let r = DeferredReader {
        read: Box::new(Src),
        buf,
        pos_in_buf,
        valid_len,
        complete,
        io_error: if has_err {
            Some(io::Error::from(io::ErrorKind::Other))
        } else {
            None
        },
        pos_of_buf,
        mark_in_buf,
        chunk_size: chunk,
    };
    let pre = Pre {
        cur,
        position: pos_of_buf.wrapping_add(pos_in_buf),
        mark: pos_of_buf.wrapping_add(mark_in_buf),
        valid_len,
        pos_in_buf,
        buf_len,
        chunk,
        complete,
        has_err,
    };
    (r, pre)
}

/// `Inv` after an operation that advanced the cursor by `adv` bytes.
pub fn check_inv(r: &DeferredReader, pre: &Pre, adv: usize) {
    let cur = pre.cur + adv;
    // memory safety part (C14): the exposed window lies inside the buffer
    assert!(r.pos_in_buf <= r.buf.len());
    assert!(r.valid_len <= r.buf.len() - r.pos_in_buf);
    unsafe {
        // nothing lost, nothing duplicated: window ends where the source stands
        assert!(G_DELIVERED == cur + r.valid_len);
        // content: the witness byte, if inside the window, is shown at its place
        if G_W >= cur && G_W - cur < r.valid_len {
            assert!(r.buf[r.pos_in_buf + (G_W - cur)] == G_WB);
            // and through the public accessors
            assert!(r.buf()[G_W - cur] == G_WB);
        }
        assert!(r.buf().len() == r.valid_len);
        assert!(r.buf_len() == r.valid_len);
        // flags
        assert!(r.complete == G_ENDED);
        assert!(r.is_complete() == G_ENDED);
        assert!(r.is_at_end() == (G_ENDED && r.valid_len == 0));
        assert!(!r.io_error.is_some() || r.complete);
        // the source is never called again after it reported end/error (C09)
        assert!(!G_CALLED_AFTER_END);
        assert!(!G_EMPTY_SLICE);
    }
    assert!(r.position() == pre.position.wrapping_add(adv));
    assert!(r.chunk_size == pre.chunk);
}

fn forget(r: DeferredReader) {
    std::mem::forget(r);
}

// ---------------------------------------------------------------------------------------------
// request_more

#[kani::proof]
pub fn step_request_more() {
    let (r, pre) = any_reader();
    request_more_step(r, pre, true);
}

/// The realign + shrink region with a buffer twice as large (the shrink decision compares the
/// buffer size with four times the window plus chunk, so its boundary cases need room): chunk
/// size 1, cursor past the realign threshold, pre-state buffer of SHRINKCAP/2+1 ..= SHRINKCAP bytes.
#[kani::proof]
pub fn step_request_more_shrink_region() {
    let (r, pre) = any_reader_n::<SHRINKCAP>();
    kani::assume(pre.chunk == 1 && pre.pos_in_buf > 2 && pre.buf_len > SHRINKCAP / 2 && !pre.complete);
    unsafe {
        kani::assume(G_W >= pre.cur && G_W - pre.cur < pre.valid_len); // the witness lies in the live window
    }
    request_more_step(r, pre, false);
}

fn request_more_step(mut r: DeferredReader<'static>, pre: Pre, full: bool) {
    let res = r.request_more();
    check_inv(&r, &pre, 0);
    assert!(r.mark() == pre.mark); // the mark designates the same absolute offset (D1)
    unsafe {
        assert!(res == !pre.complete);
        if pre.complete {
            assert!(G_CALLS == 0);
            assert!(r.buf.len() == pre.buf_len);
        } else {
            assert!(G_OK_READS <= 1);
            assert!(G_CALLS == 1 + G_INTR);
            assert!(r.valid_len >= pre.valid_len);
            assert!(r.valid_len - pre.valid_len <= pre.chunk);
            // falls short only when the source ended or failed
            assert!(r.valid_len > pre.valid_len || G_ENDED);
            assert!((r.valid_len > pre.valid_len) == (G_OK_READS == 1));
            assert!(!pre.has_err || r.io_error.is_some());
            assert!(pre.has_err || !r.io_error.is_some() || G_ENDED);
            // C04: a terminal failure of the source (of any kind) is parked, never mistaken for EOF
            assert!(!G_FAILED || r.io_error.is_some());
            assert!(pre.has_err || r.io_error.is_some() == G_FAILED);
            // C10: buffer growth is bounded by the window plus chunks, independent of history
            let need = r.pos_in_buf + pre.valid_len + pre.chunk;
            assert!(r.buf.len() <= core::cmp::max(pre.buf_len, need));
            assert!(r.buf.len() >= need);
            // realign happened iff the cursor was more than two chunks into the buffer
            let realigned = pre.pos_in_buf > 2 * pre.chunk;
            assert!(r.pos_in_buf == if realigned { 0 } else { pre.pos_in_buf });
            if realigned && pre.buf_len > 4 * (pre.valid_len + pre.chunk) {
                // shrink: at most half the old size (or what the next read needs)
                assert!(r.buf.len() <= core::cmp::max(pre.buf_len / 2, need));
            }
            kani::cover!(realigned, "realign taken");
            kani::cover!(realigned && pre.buf_len > 4 * (pre.valid_len + pre.chunk), "shrink taken");
            kani::cover!(!full || r.buf.len() > pre.buf_len, "buffer grown");
            kani::cover!(G_INTR == 2, "interrupted twice");
            kani::cover!(r.io_error.is_some() && !pre.has_err, "terminal error parked");
            kani::cover!(G_ENDED && !r.io_error.is_some(), "clean end");
            kani::cover!(G_OK_READS == 1 && r.valid_len == pre.valid_len + pre.chunk, "full chunk");
            kani::cover!(!full || (G_OK_READS == 1 && r.valid_len < pre.valid_len + pre.chunk), "short read");
            kani::cover!(realigned && G_W >= pre.cur && G_W - pre.cur < pre.valid_len, "witness moved by realign");
        }
    }
    forget(r);
}


// ---------------------------------------------------------------------------------------------
// Contract stub for request_more, used by the harnesses of the refill loops: the runner injects
// `#[cfg(kani)] if verif_reader::USE_CONTRACT { return self.request_more_contract(); }` at the top
// of request_more in the scratch copy (source-level stubbing, so native playback sees it too).
// It havocs the reader to ANY state that satisfies Inv and the post-condition that
// `step_request_more` proves for the real function, i.e. it over-approximates the real function.

impl<'a> DeferredReader<'a> {
    pub fn request_more_contract(&mut self) -> bool {
        unsafe {
            G_STUB_CALLS += 1;
            if self.complete {
                return false;
            }
            let position = self.position();
            let mark = self.mark();
            let cur = G_DELIVERED - self.valid_len;
            // source behaviour: k new bytes (0 => ended, possibly with an error)
            let k: usize = kani::any();
            kani::assume(k <= self.chunk_size && k <= G_LEN - G_DELIVERED);
            let new_valid = self.valid_len + k;
            // arbitrary new buffer geometry
            let buf_len: usize = kani::any();
            kani::assume(buf_len <= SCAP);
            let arr: [u8; SCAP] = kani::any();
            let mut buf = arr.to_vec();
            buf.truncate(buf_len);
            let pos_in_buf: usize = kani::any();
            kani::assume(pos_in_buf <= buf_len && new_valid <= buf_len - pos_in_buf);
            if G_W >= cur && G_W - cur < new_valid {
                kani::assume(buf[pos_in_buf + (G_W - cur)] == G_WB);
            }
            self.buf = buf;
            self.pos_in_buf = pos_in_buf;
            self.valid_len = new_valid;
            self.pos_of_buf = position.wrapping_sub(pos_in_buf);
            self.mark_in_buf = mark.wrapping_sub(self.pos_of_buf);
            G_DELIVERED += k;
            G_CALLS += 1;
            if k == 0 {
                G_ENDED = true;
                self.complete = true;
                if kani::any() {
                    self.io_error = Some(io::Error::from(io::ErrorKind::Other));
                }
            } else {
                G_OK_READS += 1;
            }
            true
        }
    }
}
static mut G_STUB_CALLS: usize = 0;
pub static mut USE_CONTRACT: bool = false;

// ---------------------------------------------------------------------------------------------
// request(n), request_byte_at_offset(k), request_byte (request_more replaced by its contract)

#[kani::proof]
pub fn step_request() {
    let (mut r, pre) = any_reader();
    unsafe { USE_CONTRACT = true };
    let n: usize = kani::any();
    kani::assume(n <= pre.valid_len + MAXREQ);
    let (got_len, wit_ok) = {
        let s = r.request(n);
        let wit_ok = unsafe {
            if G_W >= pre.cur && G_W - pre.cur < s.len() {
                s[G_W - pre.cur] == G_WB
            } else {
                true
            }
        };
        (s.len(), wit_ok)
    };
    assert!(wit_ok);
    check_inv(&r, &pre, 0);
    assert!(r.mark() == pre.mark);
    assert!(got_len == r.valid_len);
    unsafe {
        assert!(got_len >= n || G_ENDED);
        if pre.valid_len >= n || pre.complete {
            assert!(G_CALLS == 0); // buffered data suffices, or nothing more can come: no read
            assert!(r.valid_len == pre.valid_len);
        }
        // no over-reading: the last refill was needed
        assert!(r.valid_len < n + pre.chunk || r.valid_len == pre.valid_len);
        kani::cover!(G_OK_READS >= 2, "two refills");
        kani::cover!(got_len < n, "short at end");
        kani::cover!(got_len >= n && G_OK_READS >= 1, "satisfied by refill");
    }
    forget(r);
}

#[kani::proof]
pub fn step_request_byte_at_offset() {
    let (mut r, pre) = any_reader();
    unsafe { USE_CONTRACT = true };
    let k: usize = kani::any();
    kani::assume(k < pre.valid_len + MAXREQ);
    let b = r.request_byte_at_offset(k);
    check_inv(&r, &pre, 0);
    assert!(r.mark() == pre.mark);
    unsafe {
        match b {
            Some(byte) => {
                assert!(k < r.valid_len);
                if G_W == pre.cur + k {
                    assert!(byte == G_WB);
                }
            }
            None => {
                assert!(G_ENDED);
                assert!(r.valid_len <= k);
            }
        }
        if k < pre.valid_len || pre.complete {
            assert!(G_CALLS == 0);
        }
        assert!(r.valid_len <= k + pre.chunk || r.valid_len == pre.valid_len);
        kani::cover!(b.is_none(), "none at end");
        kani::cover!(b.is_some() && G_OK_READS >= 2, "some after two refills");
    }
    forget(r);
}

#[kani::proof]
pub fn step_request_byte() {
    let (mut r, pre) = any_reader();
    unsafe { USE_CONTRACT = true };
    let b = r.request_byte();
    check_inv(&r, &pre, 0);
    assert!(r.mark() == pre.mark);
    unsafe {
        match b {
            Some(byte) => {
                assert!(r.valid_len >= 1);
                if G_W == pre.cur {
                    assert!(byte == G_WB);
                }
            }
            None => assert!(G_ENDED && r.valid_len == 0),
        }
        if pre.valid_len >= 1 {
            assert!(G_CALLS == 0);
        }
        kani::cover!(b.is_none(), "none");
        kani::cover!(b.is_some() && G_OK_READS == 1, "some after refill");
    }
    forget(r);
}

// ---------------------------------------------------------------------------------------------
// cursor movement

#[kani::proof]
pub fn step_advance() {
    let (mut r, pre) = any_reader();
    let n: usize = kani::any();
    kani::assume(n <= pre.valid_len);
    r.advance(n);
    check_inv(&r, &pre, n);
    assert!(r.mark() == pre.mark);
    assert!(r.valid_len == pre.valid_len - n);
    assert!(r.buf.len() == pre.buf_len);
    unsafe {
        assert!(G_CALLS == 0);
    }
    kani::cover!(n == pre.valid_len && n > 0, "advance over everything");
    forget(r);
}

#[kani::proof]
pub fn step_advance_with_buf() {
    let (mut r, pre) = any_reader();
    let n: usize = kani::any();
    kani::assume(n <= pre.valid_len);
    let (len, wit_ok) = {
        let s = r.advance_with_buf(n);
        let wit_ok = unsafe {
            if G_W >= pre.cur && G_W - pre.cur < s.len() {
                s[G_W - pre.cur] == G_WB
            } else {
                true
            }
        };
        (s.len(), wit_ok)
    };
    assert!(len == n); // exactly the bytes passed over
    assert!(wit_ok);
    check_inv(&r, &pre, n);
    assert!(r.mark() == pre.mark);
    unsafe {
        assert!(G_CALLS == 0);
    }
    kani::cover!(n > 0 && unsafe { G_W >= pre.cur && G_W - pre.cur < n }, "witness in returned slice");
    forget(r);
}

#[kani::proof]
pub fn step_advance_unchecked() {
    let (mut r, pre) = any_reader();
    let n: usize = kani::any();
    kani::assume(n <= pre.valid_len);
    unsafe { r.advance_unchecked(n) };
    check_inv(&r, &pre, n);
    assert!(r.mark() == pre.mark);
    forget(r);
}

// ---------------------------------------------------------------------------------------------
// mark, chunk size, error access

#[kani::proof]
pub fn step_marks_and_config() {
    let (mut r, pre) = any_reader();
    let which: u8 = kani::any();
    match which {
        0 => {
            r.set_mark();
            assert!(r.mark() == pre.position);
            check_inv(&r, &pre, 0);
        }
        1 => {
            let p: usize = kani::any();
            r.set_mark_to_position(p);
            assert!(r.mark() == p);
            check_inv(&r, &pre, 0);
        }
        2 => {
            let c: usize = kani::any();
            kani::assume(c >= 1);
            r.set_chunk_size(c);
            assert!(r.chunk_size == c);
            assert!(r.mark() == pre.mark);
            r.chunk_size = pre.chunk;
            check_inv(&r, &pre, 0);
        }
        3 => {
            let e = r.check_io_error();
            assert!(e.is_err() == pre.has_err);
            assert!(r.io_error.is_none()); // reported exactly once
            assert!(r.check_io_error().is_ok());
            assert!(r.mark() == pre.mark);
            check_inv(&r, &pre, 0);
            std::mem::forget(e);
        }
        4 => {
            assert!(r.io_error().is_some() == pre.has_err);
            assert!(r.io_error.is_some() == pre.has_err); // not consumed
            check_inv(&r, &pre, 0);
        }
        _ => {
            let p = r.buf_ptr();
            assert!(p == unsafe { r.buf.as_ptr().add(r.pos_in_buf) });
            check_inv(&r, &pre, 0);
        }
    }
    unsafe {
        assert!(G_CALLS == 0);
    }
    forget(r);
}

/// Mark set, then cursor advanced and buffer refilled (the sequence every number token performs).
#[kani::proof]
pub fn step_mark_survives_advance_and_refill() {
    let (mut r, pre) = any_reader();
    r.set_mark();
    let n: usize = kani::any();
    kani::assume(n <= pre.valid_len);
    r.advance(n);
    let _ = r.request_more();
    assert!(r.mark() == pre.position);
    check_inv(&r, &pre, n);
    kani::cover!(n > 2 * pre.chunk && !pre.complete, "realign after mark");
    forget(r);
}

// ---------------------------------------------------------------------------------------------
// base case

#[kani::proof]
pub fn base_from_read() {
    let len: usize = kani::any();
    kani::assume(len <= BIG);
    unsafe {
        G_DELIVERED = 0;
        G_LEN = len;
        G_W = kani::any();
        G_WB = kani::any();
        G_ENDED = false;
        G_CALLS = 0;
        G_OK_READS = 0;
        G_INTR = 0;
        G_CALLED_AFTER_END = false;
        G_EMPTY_SLICE = false;
        G_OVERLONG = false;
        G_ALLOW_OVERLONG = false;
    }
    let r = DeferredReader::from_read(Src);
    let pre = Pre {
        cur: 0,
        position: 0,
        mark: 0,
        valid_len: 0,
        pos_in_buf: 0,
        buf_len: 0,
        chunk: r.chunk_size,
        complete: false,
        has_err: false,
    };
    check_inv(&r, &pre, 0);
    assert!(r.mark() == 0);
    assert!(r.chunk_size >= 1);
    unsafe {
        assert!(G_CALLS == 0);
    }
    forget(r);
}

// ---------------------------------------------------------------------------------------------
// from_buf_reader: the bytes already sitting in the BufReader come first, then the inner source
// continues; nothing is lost or duplicated at the seam (real std BufReader, small capacity).

struct Inner {
    data: [u8; 6],
    len: usize,
    pos: usize,
}

impl Read for Inner {
    fn read(&mut self, out: &mut [u8]) -> io::Result<usize> {
        let rest = self.len - self.pos;
        if rest == 0 || out.is_empty() {
            return Ok(0);
        }
        let k: usize = kani::any();
        kani::assume(k >= 1 && k <= rest && k <= out.len());
        let mut i = 0;
        while i < k {
            out[i] = self.data[self.pos + i];
            i += 1;
        }
        self.pos += k;
        Ok(k)
    }
}

#[kani::proof]
pub fn base_from_buf_reader() {
    use std::io::BufRead;
    let data: [u8; 6] = kani::any();
    let len: usize = kani::any();
    kani::assume(len <= 4);
    let mut br = std::io::BufReader::with_capacity(2, Inner { data, len, pos: 0 });
    // some bytes are pulled into the BufReader and some of those are consumed through it before
    // the DeferredReader takes over
    let prefill: bool = kani::any();
    let mut consumed = 0;
    if prefill {
        let got = br.fill_buf().unwrap().len();
        let j: usize = kani::any();
        kani::assume(j <= got);
        br.consume(j);
        consumed = j;
    }
    let buffered = br.buffer().len();
    let mut r = DeferredReader::from_buf_reader(br);
    assert!(r.position() == 0 && r.buf_len() == 0 && !r.is_complete());
    r.set_chunk_size(4);
    // two refills (one read each): first the bytes the BufReader still held, then the inner source
    let mut rounds = 0;
    while rounds < 2 && r.request_more() {
        rounds += 1;
        // at every point the window is a prefix of the not yet consumed stream
        let w = r.buf();
        assert!(w.len() <= len - consumed, "bytes invented or duplicated at the BufReader seam");
        let i: usize = kani::any();
        kani::assume(i < w.len());
        assert!(w[i] == data[consumed + i], "byte lost, duplicated or reordered at the BufReader seam");
        // a refill falls short only at the end of the stream
        assert!(!w.is_empty() || r.is_complete());
    }
    if rounds >= 1 && buffered > 0 {
        // the first refill delivers (some of) the bytes that were sitting in the BufReader
        assert!(r.buf_len() >= 1);
    }
    if r.is_complete() {
        assert!(r.buf_len() == len - consumed, "bytes lost at the end");
        assert!(r.io_error().is_none());
    }
    kani::cover!(prefill && buffered > 0 && buffered < len - consumed, "buffered bytes and inner continuation both used");
    kani::cover!(prefill && buffered == 0, "BufReader drained before the hand-over");
    forget(r);
}

// ---------------------------------------------------------------------------------------------
// reachability twin: must FAIL (vacuity guard for the whole group)

#[kani::proof]
pub fn reach_request_more() {
    let (mut r, pre) = any_reader();
    let res = r.request_more();
    check_inv(&r, &pre, 0);
    if res && r.valid_len > pre.valid_len && pre.pos_in_buf > 2 * pre.chunk {
        assert!(false, "reachability witness");
    }
    forget(r);
}

// ---------------------------------------------------------------------------------------------
// C14: the memory-safety part of Inv must hold AT the point where a documented panic diverges
// (a caller may catch the panic and keep using the reader). Kani ends a path at a panic, so the
// runner injects cfg(kani) hooks: `panic_point(self)` as first statement of advance_cold, and
// `pre_read_assert(self)` immediately before the load-bearing `assert!(n <= chunk_size)`.

pub static mut G_PANIC_POINTS: usize = 0;

pub fn safe_inv(r: &DeferredReader) -> bool {
    r.pos_in_buf <= r.buf.len() && r.valid_len <= r.buf.len() - r.pos_in_buf
}

pub fn panic_point(r: &DeferredReader) {
    unsafe {
        G_PANIC_POINTS += 1;
    }
    assert!(safe_inv(r), "SafeInv at the point where advance panics");
    // what a caller sees after catch_unwind: the exposed slice has the buffered length
    assert!(r.buf().len() == r.valid_len);
    unsafe {
        assert!(G_DELIVERED >= r.valid_len, "exposes bytes never read from the source");
    }
}

pub fn pre_read_assert(r: &DeferredReader) {
    assert!(safe_inv(r), "SafeInv before the Read-contract assert");
    unsafe {
        // bytes exposed never exceed bytes delivered (an over-long claim must not be trusted)
        if G_OVERLONG {
            assert!(G_DELIVERED >= G_PRE_CUR + r.valid_len, "exposes bytes never read from the source");
        }
    }
}
static mut G_PRE_CUR: usize = 0;

#[kani::proof]
pub fn panic_advance_past_end() {
    let (mut r, pre) = any_reader();
    let n: usize = kani::any();
    kani::assume(n > pre.valid_len);
    r.advance(n); // documented to panic; the hook checks the state at the panic
    assert!(false, "advance past the buffered data returned normally");
}

#[kani::proof]
pub fn panic_advance_with_buf_past_end() {
    let (mut r, pre) = any_reader();
    let n: usize = kani::any();
    kani::assume(n > pre.valid_len);
    let _ = r.advance_with_buf(n);
    assert!(false, "advance_with_buf past the buffered data returned normally");
}

/// A source that claims more bytes than the slice it was given (violating Read's contract).
#[kani::proof]
pub fn step_request_more_overlong_source() {
    let (mut r, pre) = any_reader();
    unsafe {
        G_ALLOW_OVERLONG = true;
        G_PRE_CUR = pre.cur;
    }
    let _ = r.request_more();
    // only reached if no panic happened
    unsafe {
        assert!(!G_OVERLONG, "over-long read result was accepted");
    }
    check_inv(&r, &pre, 0);
    forget(r);
}
