// Engine R: a model of `DeferredReader` with the same public API over a fixed window, used ONLY in
// scratch copies for tokenizer-level harnesses (it replaces flussab/src/deferred_reader.rs there).
//
// It over-approximates the observable behaviour of the real reader as established by the C02 step
// harnesses on the real code: the exposed window is stream[position .. position+avail]; a request
// that needs more data makes `avail` jump to ANY admissible value (every partition of the stream
// into read results at once); a request falls short only at the real end of the delivered data,
// where `complete` is set and, for a failing source, the I/O error is parked.
//
// Ghost instrumentation: `m_hw` = 1 + largest window index ever requested (look-ahead), and
// `m_eof_probed` = some request reached the end of the delivered data.

use std::io::{self, BufReader, Read};
use std::marker::PhantomData;

include!(concat!(env!("CARGO_MANIFEST_DIR"), "/src/verif_params.rs"));
// N: window size in bytes

#[derive(Clone, Copy, PartialEq, Eq)]
pub enum Refill {
    /// every refill buffers an arbitrary admissible amount (all schedules at once)
    Nondet,
    /// every refill buffers everything that is left (one-shot source)
    All,
    /// every refill buffers exactly what was asked for (byte-at-a-time source)
    Minimal,
}

pub struct DeferredReader<'a> {
    pub m_data: [u8; N],
    pub m_len: usize,
    pub m_pos: usize,
    pub m_avail: usize,
    pub m_complete: bool,
    pub m_fault: bool,
    pub m_err_parked: bool,
    pub m_err_obj: io::Error,
    pub m_mark: usize,
    pub m_base: usize,
    pub m_refill: Refill,
    pub m_hw: usize,
    pub m_eof_probed: bool,
    pub m_chunk: usize,
    pub m_refills: usize,
    _p: PhantomData<&'a ()>,
}

/// Plain-data snapshot (everything but the error object), to fork runs and compare states.
#[derive(Clone, Copy)]
pub struct ModelState {
    pub data: [u8; N],
    pub len: usize,
    pub pos: usize,
    pub avail: usize,
    pub complete: bool,
    pub fault: bool,
    pub err_parked: bool,
    pub mark: usize,
    pub base: usize,
    pub hw: usize,
    pub eof_probed: bool,
}

impl<'a> DeferredReader<'a> {
    const DEFAULT_CHUNK_SIZE: usize = 16 << 10;

    // ---------------------------------------------------------------- model construction

    /// A reader at an arbitrary point of an arbitrary stream: symbolic window content, length,
    /// cursor, buffered amount, flags, mark and absolute base position.
    pub fn model_any(refill: Refill) -> Self {
        let data: [u8; N] = kani::any();
        let len: usize = kani::any();
        kani::assume(len <= N);
        let pos: usize = kani::any();
        kani::assume(pos <= len);
        Self::model_with(data, len, pos, refill)
    }

    /// Same, with given content / length / cursor.
    pub fn model_with(data: [u8; N], len: usize, pos: usize, refill: Refill) -> Self {
        let avail: usize = kani::any();
        kani::assume(avail <= len - pos);
        let complete: bool = kani::any();
        kani::assume(!complete || avail == len - pos);
        let fault: bool = kani::any();
        let err_parked: bool = kani::any();
        kani::assume(!err_parked || (fault && complete));
        let base: usize = kani::any();
        // keep absolute positions away from the usize wrap (stated bound)
        kani::assume(base <= usize::MAX / 2);
        let mark: usize = kani::any();
        DeferredReader {
            m_data: data,
            m_len: len,
            m_pos: pos,
            m_avail: avail,
            m_complete: complete,
            m_fault: fault,
            m_err_parked: err_parked,
            m_err_obj: io::Error::from(io::ErrorKind::Other),
            m_mark: mark,
            m_base: base,
            m_refill: refill,
            m_hw: pos,
            m_eof_probed: false,
            m_chunk: Self::DEFAULT_CHUNK_SIZE,
            m_refills: 0,
            _p: PhantomData,
        }
    }

    /// A reader whose whole (concrete or symbolic) content is already buffered: no nondeterminism.
    pub fn model_buffered(data: [u8; N], len: usize) -> Self {
        DeferredReader {
            m_data: data,
            m_len: len,
            m_pos: 0,
            m_avail: len,
            m_complete: false,
            m_fault: false,
            m_err_parked: false,
            m_err_obj: io::Error::from(io::ErrorKind::Other),
            m_mark: 0,
            m_base: 0,
            m_refill: Refill::All,
            m_hw: 0,
            m_eof_probed: false,
            m_chunk: Self::DEFAULT_CHUNK_SIZE,
            m_refills: 0,
            _p: PhantomData,
        }
    }

    pub fn snapshot(&self) -> ModelState {
        ModelState {
            data: self.m_data,
            len: self.m_len,
            pos: self.m_pos,
            avail: self.m_avail,
            complete: self.m_complete,
            fault: self.m_fault,
            err_parked: self.m_err_parked,
            mark: self.m_mark,
            base: self.m_base,
            hw: self.m_hw,
            eof_probed: self.m_eof_probed,
        }
    }

    /// A second reader over the same stream at the same point, possibly with another refill policy
    /// and another amount of buffered data.
    pub fn fork(&self, refill: Refill, same_avail: bool) -> DeferredReader<'static> {
        let mut avail = self.m_avail;
        let mut complete = self.m_complete;
        if !same_avail {
            avail = kani::any();
            kani::assume(avail <= self.m_len - self.m_pos);
            complete = kani::any();
            kani::assume(!complete || avail == self.m_len - self.m_pos);
        }
        DeferredReader {
            m_data: self.m_data,
            m_len: self.m_len,
            m_pos: self.m_pos,
            m_avail: avail,
            m_complete: complete,
            m_fault: self.m_fault,
            m_err_parked: self.m_err_parked && complete,
            m_err_obj: io::Error::from(io::ErrorKind::Other),
            m_mark: self.m_mark,
            m_base: self.m_base,
            m_refill: refill,
            m_hw: self.m_pos,
            m_eof_probed: false,
            m_chunk: self.m_chunk,
            m_refills: 0,
            _p: PhantomData,
        }
    }

    /// Index into the window of the cursor.
    pub fn model_pos(&self) -> usize {
        self.m_pos
    }

    fn refill_to(&mut self, need: usize) {
        // precondition: self.m_avail < need
        self.m_refills += 1;
        let rest = self.m_len - self.m_pos;
        if need <= rest {
            self.m_avail = match self.m_refill {
                Refill::All => rest,
                Refill::Minimal => need,
                Refill::Nondet => {
                    let a: usize = kani::any();
                    kani::assume(a >= need && a <= rest);
                    a
                }
            };
        } else {
            // the source ended (or failed) before the request could be satisfied
            self.m_avail = rest;
            self.reach_end();
        }
    }

    fn reach_end(&mut self) {
        self.m_eof_probed = true;
        if !self.m_complete {
            self.m_complete = true;
            if self.m_fault {
                self.m_err_parked = true;
            }
        }
    }

    fn note_request(&mut self, upto: usize) {
        // upto = number of bytes from the cursor that the caller asked to see
        let idx = self.m_pos.saturating_add(upto);
        if idx > self.m_hw {
            self.m_hw = idx;
        }
    }

    // ---------------------------------------------------------------- the DeferredReader API

    pub fn from_buf_reader(_buf_reader: BufReader<impl Read + 'a>) -> Self {
        unreachable!("reader model: constructed with model_any")
    }

    pub fn from_read(_read: impl Read + 'a) -> Self {
        unreachable!("reader model: constructed with model_any")
    }

    pub fn from_boxed_dyn_read(_read: Box<dyn Read + 'a>) -> Self {
        unreachable!("reader model: constructed with model_any")
    }

    pub fn set_chunk_size(&mut self, size: usize) {
        self.m_chunk = size;
    }

    #[inline]
    pub fn buf(&self) -> &[u8] {
        &self.m_data[self.m_pos..self.m_pos + self.m_avail]
    }

    #[inline]
    pub fn buf_len(&self) -> usize {
        self.m_avail
    }

    #[inline]
    pub fn buf_ptr(&self) -> *const u8 {
        unsafe { self.m_data.as_ptr().add(self.m_pos) }
    }

    #[inline]
    pub fn advance(&mut self, n: usize) {
        if n > self.m_avail {
            panic!("advanced past the current buffer size");
        }
        self.m_avail -= n;
        self.m_pos += n;
    }

    #[inline]
    pub fn advance_with_buf(&mut self, n: usize) -> &[u8] {
        self.advance(n);
        &self.m_data[self.m_pos - n..self.m_pos]
    }

    #[inline]
    pub unsafe fn advance_unchecked(&mut self, n: usize) {
        assert!(n <= self.m_avail, "advance_unchecked beyond the buffered data (UB in the real reader)");
        self.m_avail -= n;
        self.m_pos += n;
    }

    #[inline]
    pub fn position(&self) -> usize {
        self.m_base.wrapping_add(self.m_pos)
    }

    #[inline]
    pub fn mark(&self) -> usize {
        self.m_mark
    }

    #[inline]
    pub fn set_mark(&mut self) {
        self.m_mark = self.position()
    }

    #[inline]
    pub fn set_mark_to_position(&mut self, position: usize) {
        self.m_mark = position
    }

    #[inline]
    pub fn is_complete(&self) -> bool {
        self.m_complete
    }

    #[inline]
    pub fn is_at_end(&self) -> bool {
        self.m_complete && (self.m_avail == 0)
    }

    #[inline]
    pub fn check_io_error(&mut self) -> io::Result<()> {
        if self.m_err_parked {
            self.m_err_parked = false;
            Err(io::Error::from(io::ErrorKind::Other))
        } else {
            Ok(())
        }
    }

    #[inline]
    pub fn io_error(&self) -> Option<&io::Error> {
        if self.m_err_parked {
            Some(&self.m_err_obj)
        } else {
            None
        }
    }

    #[inline]
    pub fn request(&mut self, len: usize) -> &[u8] {
        self.note_request(len);
        if self.m_avail < len {
            if self.m_complete {
                self.m_eof_probed = true;
            } else {
                self.refill_to(len);
            }
        }
        self.buf()
    }

    #[inline]
    pub fn request_byte(&mut self) -> Option<u8> {
        self.request_byte_at_offset(0)
    }

    #[inline]
    pub fn request_byte_at_offset(&mut self, offset: usize) -> Option<u8> {
        self.note_request(offset.saturating_add(1));
        if offset < self.m_avail {
            return Some(self.m_data[self.m_pos + offset]);
        }
        if self.m_complete {
            self.m_eof_probed = true;
            return None;
        }
        self.refill_to(offset.saturating_add(1));
        if offset < self.m_avail {
            Some(self.m_data[self.m_pos + offset])
        } else {
            None
        }
    }

    pub fn request_more(&mut self) -> bool {
        if self.m_complete {
            return false;
        }
        let rest = self.m_len - self.m_pos;
        if self.m_avail < rest {
            let a: usize = match self.m_refill {
                Refill::All => rest,
                Refill::Minimal => self.m_avail + 1,
                Refill::Nondet => {
                    let a: usize = kani::any();
                    kani::assume(a > self.m_avail && a <= rest);
                    a
                }
            };
            self.m_refills += 1;
            self.note_request(a);
            self.m_avail = a;
        } else {
            self.note_request(rest.saturating_add(1));
            self.reach_end();
        }
        true
    }
}
