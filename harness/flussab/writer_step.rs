// One-step inductive harnesses over the REAL `DeferredWriter` (C11, C14 writer half).
// Included into a scratch copy of flussab/src/deferred_writer.rs as `mod verif_writer`.
//
// Ghost: the written stream is never materialised. G_WRITTEN = bytes written by the client so far,
// G_BASE = stream offset of buf[0] (Inv: G_BASE + buf.len() == G_WRITTEN). One symbolic stream
// offset W with byte WB is the witness: the sink stub checks the byte that arrives as stream
// offset W, and that it arrives at most once; with a sink that never fails, also that it arrives.

use super::*;
use std::io::{self, Write};

include!(concat!(env!("CARGO_MANIFEST_DIR"), "/src/verif_params.rs"));
// WCAP: buffer capacity, MAXS: longest slice written (>= 2*WCAP+1)

const BIG: usize = 1 << 40;

static mut G_WRITTEN: usize = 0;
static mut G_BASE: usize = 0;
static mut G_W: usize = 0;
static mut G_WB: u8 = 0;
static mut G_SEEN: bool = false; // witness byte arrived at the sink (correctly)
static mut G_SUNK_IN_OP: usize = 0; // bytes accepted by the sink during the current operation
static mut G_OP_BASE: usize = 0; // stream offset of the first byte the sink can get in this op
static mut G_CALLS: usize = 0; // sink write() calls in this op
static mut G_FLUSH_CALLS: usize = 0;
static mut G_FAILED_IN_OP: bool = false;
static mut G_INTR: usize = 0;
static mut G_SHORT_DONE: bool = false;
static mut G_ORDER_OK: bool = true;
// sink behaviour for this harness
static mut M_MAY_FAIL: bool = false;
static mut M_MAY_SHORT: bool = false;
static mut M_MAY_INTR: bool = false;

struct Sink;

impl Write for Sink {
    fn write(&mut self, buf: &[u8]) -> io::Result<usize> {
        unsafe {
            G_CALLS += 1;
            if G_FAILED_IN_OP {
                // the writer must not call the sink again after it failed (until reported)
                G_ORDER_OK = false;
            }
            if M_MAY_INTR && G_INTR < 1 && kani::any() {
                G_INTR += 1;
                return Err(io::Error::from(io::ErrorKind::Interrupted));
            }
            if M_MAY_FAIL && kani::any() {
                G_FAILED_IN_OP = true;
                return Err(io::Error::from(io::ErrorKind::Other));
            }
            if buf.is_empty() {
                return Ok(0);
            }
            let mut k = buf.len();
            if M_MAY_SHORT && !G_SHORT_DONE {
                G_SHORT_DONE = true;
                k = kani::any();
                kani::assume(k >= 1 && k <= buf.len());
            }
            let off = G_OP_BASE + G_SUNK_IN_OP; // stream offset of buf[0] of this call
            if G_W >= off && G_W - off < k {
                if buf[G_W - off] != G_WB || G_SEEN {
                    G_ORDER_OK = false; // wrong byte at this stream position, or delivered twice
                }
                G_SEEN = true;
            }
            G_SUNK_IN_OP += k;
            Ok(k)
        }
    }
    fn flush(&mut self) -> io::Result<()> {
        unsafe {
            G_FLUSH_CALLS += 1;
        }
        Ok(())
    }
}

#[derive(Clone, Copy)]
pub struct Pre {
    pub len: usize,
    pub has_err: bool,
    pub base: usize,
    pub written: usize,
    pub seen: bool,
}

pub fn any_writer(may_fail: bool, may_short: bool, may_intr: bool) -> (DeferredWriter<'static>, Pre) {
    let len: usize = kani::any();
    kani::assume(len <= WCAP);
    let arr: [u8; WCAP] = kani::any();
    let mut buf: Vec<u8> = Vec::with_capacity(WCAP);
    buf.extend_from_slice(&arr[..len]);
    assert!(buf.capacity() == WCAP);
    let has_err: bool = kani::any();
    kani::assume(may_fail || !has_err);
    let base: usize = kani::any();
    kani::assume(base <= BIG);
    let w: usize = kani::any();
    let wb: u8 = kani::any();
    let seen: bool = kani::any();
    if w >= base && w - base < len {
        kani::assume(buf[w - base] == wb);
    }
    // Inv: seen => W below the buffer; with a sink that never fails: W below the buffer => seen
    kani::assume(!seen || w < base);
    kani::assume(may_fail || !(w < base) || seen);
    unsafe {
        G_WRITTEN = base + len;
        G_BASE = base;
        G_W = w;
        G_WB = wb;
        G_SEEN = seen;
        G_SUNK_IN_OP = 0;
        G_OP_BASE = base;
        G_CALLS = 0;
        G_FLUSH_CALLS = 0;
        G_FAILED_IN_OP = false;
        G_INTR = 0;
        G_SHORT_DONE = false;
        G_ORDER_OK = true;
        M_MAY_FAIL = may_fail;
        M_MAY_SHORT = may_short;
        M_MAY_INTR = may_intr;
    }
    let wr = DeferredWriter {
        write: Box::new(Sink),
        buf,
        io_error: if has_err {
            Some(io::Error::from(io::ErrorKind::Other))
        } else {
            None
        },
        panicked: false,
    };
    (
        wr,
        Pre {
            len,
            has_err,
            base,
            written: base + len,
            seen,
        },
    )
}

/// Inv after an operation in which the client wrote `wrote` more bytes.
pub fn check_inv(wr: &DeferredWriter, pre: &Pre, wrote: usize, may_fail: bool) {
    unsafe {
        let written = pre.written + wrote;
        assert!(wr.buf.len() <= wr.buf.capacity());
        assert!(wr.buf.capacity() == WCAP); // capacity never changes (no reallocation)
        assert!(!wr.panicked);
        assert!(G_ORDER_OK, "sink saw a wrong, duplicated or post-failure byte");
        let base = written - wr.buf.len();
        // the buffer always holds the most recently written bytes
        if G_W >= base && G_W < written {
            assert!(wr.buf[G_W - base] == G_WB);
        }
        assert!(!G_SEEN || G_W < base);
        if pre.has_err {
            // error parked and not yet reported: the sink is not called at all
            assert!(G_CALLS == 0);
        }
        if !may_fail {
            // nothing is ever dropped: everything below the buffer has reached the sink
            assert!(wr.io_error.is_none());
            assert!(base == pre.base + G_SUNK_IN_OP);
            assert!(!(G_W < base) || G_SEEN);
        } else {
            assert!(base >= pre.base + G_SUNK_IN_OP);
            if !pre.has_err {
                assert!(wr.io_error.is_some() == G_FAILED_IN_OP);
            }
        }
    }
}

fn any_slice() -> ([u8; MAXS], usize) {
    let data: [u8; MAXS] = kani::any();
    let n: usize = kani::any();
    kani::assume(n <= MAXS);
    unsafe {
        if G_W >= G_WRITTEN && G_W - G_WRITTEN < n {
            kani::assume(data[G_W - G_WRITTEN] == G_WB);
        }
    }
    (data, n)
}

fn forget(w: DeferredWriter) {
    std::mem::forget(w);
}

// ---------------------------------------------------------------------------------------------
// accept-all sink

#[kani::proof]
pub fn step_write_all_defer_err_ok_sink() {
    let (mut wr, pre) = any_writer(false, false, false);
    let (data, n) = any_slice();
    wr.write_all_defer_err(&data[..n]);
    check_inv(&wr, &pre, n, false);
    unsafe {
        kani::cover!(G_CALLS == 0 && n > 0, "fast path");
        kani::cover!(G_CALLS == 1 && wr.buf.len() > 0, "fill, flush, buffer rest");
        kani::cover!(G_CALLS == 2, "flush then write-through");
        kani::cover!(G_SEEN && !pre.seen, "witness delivered in this op");
        kani::cover!(n == MAXS, "longest slice");
    }
    forget(wr);
}

#[kani::proof]
pub fn step_write_trait_methods_ok_sink() {
    let (mut wr, pre) = any_writer(false, false, false);
    let (data, n) = any_slice();
    if kani::any() {
        let r = Write::write(&mut wr, &data[..n]);
        assert!(matches!(r, Ok(k) if k == n));
    } else {
        let r = Write::write_all(&mut wr, &data[..n]);
        assert!(r.is_ok());
    }
    check_inv(&wr, &pre, n, false);
    forget(wr);
}

#[kani::proof]
pub fn step_flush_ok_sink() {
    let (mut wr, pre) = any_writer(false, false, false);
    if kani::any() {
        wr.flush_defer_err();
    } else {
        let r = Write::flush(&mut wr);
        assert!(r.is_ok());
    }
    check_inv(&wr, &pre, 0, false);
    unsafe {
        assert!(wr.buf.is_empty());
        assert!(G_SUNK_IN_OP == pre.len); // exactly the buffered bytes, once
        assert!(!(G_W < pre.written) || G_SEEN); // everything written so far has arrived
        kani::cover!(G_SEEN && !pre.seen, "witness flushed");
    }
    forget(wr);
}

#[kani::proof]
pub fn step_drop_ok_sink() {
    let (wr, pre) = any_writer(false, false, false);
    drop(wr);
    unsafe {
        assert!(G_ORDER_OK);
        assert!(G_SUNK_IN_OP == pre.len);
        assert!(!(G_W < pre.written) || G_SEEN);
    }
}

#[kani::proof]
pub fn step_buf_write_ptr_ok_sink() {
    let (mut wr, pre) = any_writer(false, false, false);
    let want: usize = kani::any();
    kani::assume(want <= 2 * WCAP);
    let p = wr.buf_write_ptr(want);
    if p.is_null() {
        assert!(pre.len + want > WCAP);
    } else {
        assert!(pre.len + want <= WCAP); // non-null only if `want` bytes fit (C14)
        let m: usize = kani::any();
        kani::assume(m <= want);
        let data: [u8; WCAP] = kani::any();
        unsafe {
            if G_W >= G_WRITTEN && G_W - G_WRITTEN < m {
                kani::assume(data[G_W - G_WRITTEN] == G_WB);
            }
            core::ptr::copy_nonoverlapping(data.as_ptr(), p, m);
            wr.advance_unchecked(m);
        }
        check_inv(&wr, &pre, m, false);
        assert!(wr.buf.len() == pre.len + m);
        kani::cover!(m == want && want > 0, "advance by all requested bytes");
    }
    unsafe {
        assert!(G_CALLS == 0);
    }
    forget(wr);
}

#[kani::proof]
pub fn step_check_io_error_ok_sink() {
    let (mut wr, pre) = any_writer(false, false, false);
    assert!(wr.check_io_error().is_ok());
    check_inv(&wr, &pre, 0, false);
    unsafe {
        assert!(G_CALLS == 0);
    }
    forget(wr);
}

// ---------------------------------------------------------------------------------------------
// short writes / Interrupted: still everything, in order, once

#[kani::proof]
pub fn step_write_short_and_interrupted_sink() {
    let (mut wr, pre) = any_writer(false, true, true);
    let (data, n) = any_slice();
    wr.write_all_defer_err(&data[..n]);
    check_inv(&wr, &pre, n, false);
    unsafe {
        kani::cover!(G_INTR == 1 && G_CALLS >= 3, "interrupted and short in one op");
    }
    forget(wr);
}

#[kani::proof]
pub fn step_flush_short_and_interrupted_sink() {
    let (mut wr, pre) = any_writer(false, true, true);
    let r = Write::flush(&mut wr);
    assert!(r.is_ok());
    check_inv(&wr, &pre, 0, false);
    unsafe {
        assert!(wr.buf.is_empty());
        assert!(G_SUNK_IN_OP == pre.len);
        assert!(!(G_W < pre.written) || G_SEEN);
    }
    forget(wr);
}

// ---------------------------------------------------------------------------------------------
// failing sink

#[kani::proof]
pub fn step_write_failing_sink() {
    let (mut wr, pre) = any_writer(true, false, false);
    let (data, n) = any_slice();
    let r = Write::write_all(&mut wr, &data[..n]);
    assert!(r.is_ok()); // write calls still succeed
    check_inv(&wr, &pre, n, true);
    unsafe {
        if pre.has_err {
            assert!(G_CALLS == 0); // sink not called between failure and report
            assert!(wr.io_error.is_some());
        }
        assert!(wr.io_error.is_some() == (pre.has_err || G_FAILED_IN_OP));
        kani::cover!(G_FAILED_IN_OP && G_SUNK_IN_OP > 0, "failure after part of the data was accepted");
        kani::cover!(pre.has_err && n > WCAP, "large write while an error is parked");
    }
    forget(wr);
}

#[kani::proof]
pub fn step_flush_failing_sink() {
    let (mut wr, pre) = any_writer(true, false, false);
    let r = Write::flush(&mut wr);
    unsafe {
        // the error is reported exactly by this flush, and cleared
        assert!(r.is_err() == (pre.has_err || G_FAILED_IN_OP));
        assert!(wr.io_error.is_none());
        assert!(wr.check_io_error().is_ok()); // reported exactly once
        if pre.has_err {
            assert!(G_CALLS == 0);
        }
        assert!(wr.buf.is_empty());
        assert!(G_ORDER_OK);
        assert!(!G_SEEN || G_W < pre.written);
        kani::cover!(r.is_err() && !pre.has_err, "flush reports a fresh failure");
        kani::cover!(r.is_ok(), "flush ok");
    }
    std::mem::forget(r);
    forget(wr);
}

#[kani::proof]
pub fn step_check_io_error_failing_sink() {
    let (mut wr, pre) = any_writer(true, false, false);
    let r = wr.check_io_error();
    assert!(r.is_err() == pre.has_err);
    assert!(wr.io_error.is_none());
    assert!(wr.check_io_error().is_ok());
    unsafe {
        assert!(G_CALLS == 0);
    }
    assert!(wr.buf.len() == pre.len);
    std::mem::forget(r);
    forget(wr);
}

#[kani::proof]
pub fn step_drop_failing_sink() {
    let (wr, pre) = any_writer(true, false, false);
    drop(wr);
    unsafe {
        assert!(G_ORDER_OK);
        if pre.has_err {
            assert!(G_CALLS == 0);
        }
    }
}

// ---------------------------------------------------------------------------------------------
// decimal integers through the writer (fast path writes into reserved space, cold path via Write)

macro_rules! digits_harness {
    ($name:ident, $t:ty, $wide:ty) => {
        #[kani::proof]
        pub fn $name() {
            let (mut wr, pre) = any_writer(false, false, false);
            let v: $t = kani::any();
            // the witness lies in the earlier stream (the digits are produced, not chosen)
            kani::assume(unsafe { G_W } < pre.written);
            crate::write::text::ascii_digits(&mut wr, v);
            unsafe {
                assert!(G_ORDER_OK);
            }
            assert!(wr.buf.len() <= wr.buf.capacity());
            assert!(wr.buf.capacity() == WCAP);
            // canonical decimal text: when nothing was flushed in this op the text is the tail of
            // the buffer (fast path: reserved space; cold path: via Write into the buffer).
            if unsafe { G_CALLS } == 0 {
                let txt = &wr.buf[pre.len..];
                assert!(!txt.is_empty());
                let mut i = 0;
                let neg = txt[0] == b'-';
                if neg {
                    i = 1;
                }
                assert!(i < txt.len());
                // no leading zeros, no plus sign
                assert!(txt[i] != b'0' || txt.len() == i + 1);
                let mut acc: $wide = 0;
                while i < txt.len() {
                    assert!(txt[i] >= b'0' && txt[i] <= b'9');
                    acc = acc * 10 + (txt[i] - b'0') as $wide;
                    i += 1;
                }
                if neg {
                    acc = -acc;
                    assert!(acc != 0); // no "-0"
                }
                assert!(acc == v as $wide);
                kani::cover!(neg || <$t>::MIN == 0, "negative value (signed types)");
                kani::cover!(txt.len() >= 3, "three or more characters");
            }
            forget(wr);
        }
    };
}

digits_harness!(digits_i8, i8, i64);
digits_harness!(digits_u8, u8, i64);
digits_harness!(digits_i16, i16, i64);
digits_harness!(digits_u16, u16, i64);

// (Harnesses for 32/64/128-bit values were tried: itoap formats them with SSE2 intrinsics
// (simd_cast), which Kani 0.68 does not support; recorded as outside in DESIGN.md.)

// ---------------------------------------------------------------------------------------------
// The reservation made by write::text::ascii_digits for EVERY integer width, against the
// contract of itoap (an external crate whose >= 32-bit code uses SSE2 intrinsics Kani cannot
// encode): `write_to_ptr(ptr, v)` writes exactly the decimal text of v (at most V::MAX_LEN bytes)
// at the pointer and returns its length; `write(w, v)` hands the same text to `w.write`. The stubs
// write that many bytes (first, last and one symbolic index: every byte of the text is covered by
// the solver without a loop), so CBMC's pointer checks decide whether the space flussab reserved
// (buf_write_ptr(I::MAX_LEN)) covers every value, for every fill level of the buffer. The length
// is a function of the value, so a counterexample replays natively against the real itoap.

/// Number of characters of the canonical decimal text.
fn dec_len(neg: bool, mag: u128) -> usize {
    // unrolled (no loop: the harness unwind bound stays small)
    let mut n = 1;
    n += (mag >= 10) as usize;
    n += (mag >= 100) as usize;
    n += (mag >= 1000) as usize;
    n += (mag >= 10000) as usize;
    n += (mag >= 100000) as usize;
    n += (mag >= 1000000) as usize;
    n += (mag >= 10000000) as usize;
    n += (mag >= 100000000) as usize;
    n += (mag >= 1000000000) as usize;
    n += (mag >= 10000000000) as usize;
    n += (mag >= 100000000000) as usize;
    n += (mag >= 1000000000000) as usize;
    n += (mag >= 10000000000000) as usize;
    n += (mag >= 100000000000000) as usize;
    n += (mag >= 1000000000000000) as usize;
    n += (mag >= 10000000000000000) as usize;
    n += (mag >= 100000000000000000) as usize;
    n += (mag >= 1000000000000000000) as usize;
    n += (mag >= 10000000000000000000) as usize;
    n += (mag >= 100000000000000000000) as usize;
    n += (mag >= 1000000000000000000000) as usize;
    n += (mag >= 10000000000000000000000) as usize;
    n += (mag >= 100000000000000000000000) as usize;
    n += (mag >= 1000000000000000000000000) as usize;
    n += (mag >= 10000000000000000000000000) as usize;
    n += (mag >= 100000000000000000000000000) as usize;
    n += (mag >= 1000000000000000000000000000) as usize;
    n += (mag >= 10000000000000000000000000000) as usize;
    n += (mag >= 100000000000000000000000000000) as usize;
    n += (mag >= 1000000000000000000000000000000) as usize;
    n += (mag >= 10000000000000000000000000000000) as usize;
    n += (mag >= 100000000000000000000000000000000) as usize;
    n += (mag >= 1000000000000000000000000000000000) as usize;
    n += (mag >= 10000000000000000000000000000000000) as usize;
    n += (mag >= 100000000000000000000000000000000000) as usize;
    n += (mag >= 1000000000000000000000000000000000000) as usize;
    n += (mag >= 10000000000000000000000000000000000000) as usize;
    n += (mag >= 100000000000000000000000000000000000000) as usize;
    n + neg as usize
}

/// (is negative, magnitude) of an itoap::Integer given only its bits.
unsafe fn sign_mag<V: itoap::Integer>(v: &V) -> (bool, u128) {
    let signed = matches!(V::MAX_LEN, 4 | 6 | 11 | 21 | 40);
    let p = v as *const V as *const u8;
    let (bits, width): (u128, u32) = match core::mem::size_of::<V>() {
        1 => (*(p as *const u8) as u128, 8),
        2 => (*(p as *const u16) as u128, 16),
        4 => (*(p as *const u32) as u128, 32),
        8 => (*(p as *const u64) as u128, 64),
        _ => (*(p as *const u128), 128),
    };
    if signed && (bits >> (width - 1)) & 1 == 1 {
        let ext = if width == 128 { bits } else { bits | (u128::MAX << width) };
        (true, (!ext).wrapping_add(1))
    } else {
        (false, bits)
    }
}

static mut G_DIG_FAST: bool = false;

pub unsafe fn stub_write_to_ptr<V: itoap::Integer>(buf: *mut u8, value: V) -> usize {
    let (neg, mag) = sign_mag(&value);
    let n = dec_len(neg, mag);
    assert!(n <= V::MAX_LEN);
    G_DIG_FAST = true;
    let j: usize = kani::any();
    kani::assume(j < n);
    *buf = b'1';
    *buf.add(n - 1) = b'1';
    *buf.add(j) = b'1';
    n
}

pub fn stub_itoap_write<W: std::io::Write, V: itoap::Integer>(mut writer: W, value: V) -> std::io::Result<usize> {
    let (neg, mag) = unsafe { sign_mag(&value) };
    let n = dec_len(neg, mag);
    let d = [b'1'; 40];
    writer.write(&d[..n])
}

/// Writer with an arbitrary fill level; the buffered content is irrelevant here (left
/// unconstrained), no stream witness.
fn any_writer_fill() -> (DeferredWriter<'static>, Pre) {
    let len: usize = kani::any();
    kani::assume(len <= WCAP);
    let mut buf: Vec<u8> = Vec::with_capacity(WCAP);
    unsafe {
        buf.set_len(len);
    }
    assert!(buf.capacity() == WCAP);
    let base: usize = kani::any();
    kani::assume(base <= BIG);
    unsafe {
        G_WRITTEN = base + len;
        G_BASE = base;
        G_W = usize::MAX; // no stream witness in these harnesses
        G_WB = 0;
        G_SEEN = false;
        G_SUNK_IN_OP = 0;
        G_OP_BASE = base;
        G_CALLS = 0;
        G_FLUSH_CALLS = 0;
        G_FAILED_IN_OP = false;
        G_INTR = 0;
        G_SHORT_DONE = false;
        G_ORDER_OK = true;
        M_MAY_FAIL = false;
        M_MAY_SHORT = false;
        M_MAY_INTR = false;
    }
    let wr = DeferredWriter { write: Box::new(Sink), buf, io_error: None, panicked: false };
    (wr, Pre { len, has_err: false, base, written: base + len, seen: false })
}

macro_rules! digits_reserve_harness {
    ($name:ident, $t:ty, $v:ident, $neg:expr, $mag:expr) => {
        #[kani::proof]
        #[kani::stub(itoap::write_to_ptr, stub_write_to_ptr)]
        #[kani::stub(itoap::write, stub_itoap_write)]
        pub fn $name() {
            let (mut wr, pre) = any_writer_fill();
            let $v: $t = kani::any();
            let n = dec_len($neg, $mag);
            crate::write::text::ascii_digits(&mut wr, $v);
            unsafe {
                assert!(G_ORDER_OK);
                assert!(wr.buf.len() <= wr.buf.capacity());
                assert!(wr.buf.capacity() == WCAP);
                if G_DIG_FAST {
                    assert!(G_CALLS == 0);
                }
                // stream accounting: exactly the text was appended, nothing lost or duplicated
                assert!(pre.base + G_SUNK_IN_OP + wr.buf.len() == pre.written + n);
                if G_CALLS == 0 {
                    assert!(wr.buf.len() == pre.len + n);
                }
                kani::cover!(G_DIG_FAST && n + 1 >= <$t as itoap::Integer>::MAX_LEN, "fast path, longest text");
                kani::cover!(G_CALLS > 0, "cold path with flush");
            }
            forget(wr);
        }
    };
}

digits_reserve_harness!(digits_reserve_i8, i8, v, v < 0, (v as i128).unsigned_abs());
digits_reserve_harness!(digits_reserve_u16, u16, v, false, v as u128);
digits_reserve_harness!(digits_reserve_i32, i32, v, v < 0, (v as i128).unsigned_abs());
digits_reserve_harness!(digits_reserve_u32, u32, v, false, v as u128);
digits_reserve_harness!(digits_reserve_i64, i64, v, v < 0, (v as i128).unsigned_abs());
digits_reserve_harness!(digits_reserve_u64, u64, v, false, v as u128);
digits_reserve_harness!(digits_reserve_isize, isize, v, v < 0, (v as i128).unsigned_abs());
digits_reserve_harness!(digits_reserve_usize, usize, v, false, v as u128);
digits_reserve_harness!(digits_reserve_i128, i128, v, v < 0, (v as i128).unsigned_abs());
digits_reserve_harness!(digits_reserve_u128, u128, v, false, v as u128);

// ---------------------------------------------------------------------------------------------
// base case of the induction: the public constructor establishes Inv (empty buffer with a non-zero
// capacity, no parked error, panicked == false), and a first write + flush delivers exactly it.

#[kani::proof]
pub fn base_from_write() {
    unsafe {
        G_WRITTEN = 0;
        G_BASE = 0;
        G_W = 0;
        G_WB = kani::any();
        G_SEEN = false;
        G_SUNK_IN_OP = 0;
        G_OP_BASE = 0;
        G_CALLS = 0;
        G_FLUSH_CALLS = 0;
        G_FAILED_IN_OP = false;
        G_INTR = 0;
        G_SHORT_DONE = false;
        G_ORDER_OK = true;
        M_MAY_FAIL = false;
        M_MAY_SHORT = false;
        M_MAY_INTR = false;
    }
    let mut wr = DeferredWriter::from_write(Sink);
    assert!(wr.buf.is_empty() && wr.buf.capacity() >= 1);
    assert!(wr.io_error.is_none() && !wr.panicked);
    let b = unsafe { G_WB };
    wr.write_all_defer_err(&[b]);
    unsafe {
        assert!(G_CALLS == 0, "a single byte is buffered, not written through");
    }
    assert!(wr.buf.len() == 1);
    wr.flush_defer_err();
    unsafe {
        assert!(G_ORDER_OK && G_SEEN && G_SUNK_IN_OP == 1, "first byte not delivered exactly once");
    }
    assert!(wr.buf.is_empty());
    assert!(wr.check_io_error().is_ok());
    forget(wr);
}

// ---------------------------------------------------------------------------------------------
// vacuity twin

#[kani::proof]
pub fn reach_write_through() {
    let (mut wr, pre) = any_writer(false, false, false);
    let (data, n) = any_slice();
    wr.write_all_defer_err(&data[..n]);
    check_inv(&wr, &pre, n, false);
    unsafe {
        if G_CALLS == 2 && G_SEEN && !pre.seen {
            assert!(false, "reachability witness");
        }
    }
    forget(wr);
}
