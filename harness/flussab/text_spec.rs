// Specification stubs for the optimised digit scanners, used by tokenizer-level harnesses of the
// format crates (assume/guarantee): the C13 harnesses prove on the real code that
// `ascii_digits_multi`/`signed_ascii_digits_multi` return (exact value iff representable, offset
// just past the digit run) and request nothing beyond one byte past the run; the runner injects
//   #[cfg(kani)] if unsafe { verif_spec::USE_SPEC } { return verif_spec::spec_digits(reader, offset); }
// at the top of both functions in the scratch copy, and token harnesses switch USE_SPEC on.
// (Source-level stubbing, so native playback sees it too.)

use super::*;

pub static mut USE_SPEC: bool = false;

pub fn spec_digits<I: FromPrimitive>(reader: &mut DeferredReader, mut offset: usize) -> (Option<I>, usize) {
    let mut v: u128 = 0;
    let mut big = false;
    while let Some(digit @ b'0'..=b'9') = reader.request_byte_at_offset(offset) {
        offset += 1;
        if v > (u128::MAX >> 4) {
            big = true;
        } else {
            v = (v << 3) + (v << 1) + (digit - b'0') as u128;
        }
    }
    (if big { None } else { I::from_u128(v) }, offset)
}

pub fn spec_signed_digits<I: FromPrimitive>(reader: &mut DeferredReader, offset: usize) -> (Option<I>, usize) {
    if let Some(b'-') = reader.request_byte_at_offset(offset) {
        if let Some(b'0'..=b'9') = reader.request_byte_at_offset(offset + 1) {
            let mut off = offset + 1;
            let mut v: u128 = 0;
            let mut big = false;
            while let Some(digit @ b'0'..=b'9') = reader.request_byte_at_offset(off) {
                off += 1;
                if v > (u128::MAX >> 5) {
                    big = true;
                } else {
                    v = (v << 3) + (v << 1) + (digit - b'0') as u128;
                }
            }
            let val = if big { None } else { I::from_i128(-(v as i128)) };
            return (val, off);
        }
        // lone minus: nothing consumed, value zero
        return (I::from_u8(0), offset);
    }
    spec_digits(reader, offset)
}
