// T3 (token-level round trips, C03): a ghost TOKEN QUEUE between the real writers and the real
// parser control code. Included into a scratch copy of the flussab crate as `pub mod verif_q`.
//
// While `capturing()`, the two primitives every writer of the format crates is built from are
// redirected here (source-level dispatch injected by the runner at the top of the functions):
//   * `write::text::ascii_digits(writer, v)`   -> push Num(v)      (text = canonical decimal of v:
//                                                  C11 digits_* harnesses)
//   * `DeferredWriter::write_all_defer_err(b)` -> push Byte(b[i])  for every byte
// The format crates' token stubs pop from the queue in `script` mode, each according to the
// contract its T0 harness proves about the real token function on the rendered text. A number
// directly followed by another number or by a digit byte would be read back as ONE number by the
// real (maximal munch) scanners; such streams set AMBIG and fail the round-trip harnesses.

include!(concat!(env!("CARGO_MANIFEST_DIR"), "/src/verif_params.rs"));
// QCAP: capacity of the token queue

#[derive(Clone, Copy, PartialEq, Eq)]
pub struct Tok {
    /// 0 = literal byte, 1 = decimal number, 2 = binary (7-bit group encoded) number
    pub kind: u8,
    pub neg: bool,
    pub mag: u128,
}

const NONE: Tok = Tok { kind: 0, neg: false, mag: 0 };

pub static mut CAPTURE: bool = false;
pub static mut Q: [Tok; QCAP] = [NONE; QCAP];
pub static mut HEAD: usize = 0;
pub static mut TAIL: usize = 0;
pub static mut AMBIG: bool = false;
pub static mut OVERFLOW: bool = false;
/// the written text uses something the scripted tokens do not model (comment lines, long runs of blanks)
pub static mut UNSUPPORTED: bool = false;

pub fn capturing() -> bool {
    unsafe { CAPTURE }
}

pub fn start_capture() {
    unsafe {
        CAPTURE = true;
        HEAD = 0;
        TAIL = 0;
        AMBIG = false;
        OVERFLOW = false;
        UNSUPPORTED = false;
    }
}

pub fn stop_capture() {
    unsafe {
        CAPTURE = false;
    }
}

fn is_digit_tok(t: &Tok) -> bool {
    t.kind == 1 || (t.kind == 0 && t.mag >= b'0' as u128 && t.mag <= b'9' as u128)
}

fn push(t: Tok) {
    unsafe {
        if TAIL >= QCAP {
            OVERFLOW = true;
            return;
        }
        if TAIL > 0 {
            let p = &Q[TAIL - 1];
            // token boundaries that the real scanners would not see
            if (p.kind == 1 && is_digit_tok(&t)) || (t.kind == 1 && is_digit_tok(p)) {
                AMBIG = true;
            }
            // a minus sign glued in front of a number
            if t.kind == 1 && p.kind == 0 && p.mag == b'-' as u128 {
                AMBIG = true;
            }
        }
        Q[TAIL] = t;
        TAIL += 1;
    }
}

pub fn push_bytes(b: &[u8]) {
    let mut i = 0;
    while i < b.len() {
        push(Tok { kind: 0, neg: false, mag: b[i] as u128 });
        i += 1;
    }
}

pub fn push_bin(v: u64) {
    push(Tok { kind: 2, neg: false, mag: v as u128 });
}

/// (is negative, magnitude) of an itoap::Integer given only its bits.
pub fn push_num<V: itoap::Integer>(v: V) {
    let signed = matches!(V::MAX_LEN, 4 | 6 | 11 | 21 | 40);
    let p = &v as *const V as *const u8;
    let (bits, width): (u128, u32) = unsafe {
        match core::mem::size_of::<V>() {
            1 => (*(p as *const u8) as u128, 8),
            2 => (*(p as *const u16) as u128, 16),
            4 => (*(p as *const u32) as u128, 32),
            8 => (*(p as *const u64) as u128, 64),
            _ => (*(p as *const u128), 128),
        }
    };
    let (neg, mag) = if signed && (bits >> (width - 1)) & 1 == 1 {
        let ext = if width == 128 { bits } else { bits | (u128::MAX << width) };
        (true, (!ext).wrapping_add(1))
    } else {
        (false, bits)
    };
    push(Tok { kind: 1, neg, mag });
}

// ---- reading side

pub fn len() -> usize {
    unsafe { TAIL - HEAD }
}

pub fn peek() -> Option<Tok> {
    unsafe {
        if HEAD < TAIL {
            Some(Q[HEAD])
        } else {
            None
        }
    }
}

pub fn peek_at(k: usize) -> Option<Tok> {
    unsafe {
        if HEAD + k < TAIL {
            Some(Q[HEAD + k])
        } else {
            None
        }
    }
}

pub fn pop() {
    unsafe {
        if HEAD < TAIL {
            HEAD += 1;
        }
    }
}

pub fn next_is_byte(b: u8) -> bool {
    match peek() {
        Some(t) => t.kind == 0 && t.mag == b as u128,
        None => false,
    }
}

/// consume the byte sequence `s` if it is entirely next in the queue
pub fn take_bytes(s: &[u8]) -> bool {
    let mut i = 0;
    while i < s.len() {
        match peek_at(i) {
            Some(t) if t.kind == 0 && t.mag == s[i] as u128 => {}
            _ => return false,
        }
        i += 1;
    }
    unsafe {
        HEAD += s.len();
    }
    true
}

/// next token as an unsigned decimal number (a lone digit byte written literally, such as the
/// terminating "0" of a clause, is a number as well)
pub fn take_num() -> Option<(bool, u128)> {
    match peek() {
        Some(t) if t.kind == 1 => {
            pop();
            Some((t.neg, t.mag))
        }
        Some(t) if t.kind == 0 && t.mag >= b'0' as u128 && t.mag <= b'9' as u128 => {
            // single literal digit (followed by a non-digit: otherwise AMBIG was set on push or
            // is checked here)
            if let Some(n) = peek_at(1) {
                if is_digit_tok(&n) {
                    unsafe {
                        AMBIG = true;
                    }
                }
            }
            pop();
            Some((false, t.mag - b'0' as u128))
        }
        _ => None,
    }
}

pub fn take_bin() -> Option<u64> {
    match peek() {
        Some(t) if t.kind == 2 => {
            pop();
            Some(t.mag as u64)
        }
        _ => None,
    }
}

/// The writers separate tokens by single blanks; the scripted tokens eat up to two (loop-free, so
/// that the parser's own loops stay cheap). A longer run of blanks is left in the queue and makes
/// the round-trip harness fail its exact-consumption check instead of being silently accepted.
pub fn skip_blanks() {
    if next_is_byte(b' ') || next_is_byte(b'\t') {
        pop();
    }
    if next_is_byte(b' ') || next_is_byte(b'\t') {
        pop();
    }
    if next_is_byte(b' ') || next_is_byte(b'\t') {
        unsafe {
            UNSUPPORTED = true;
        }
    }
}
