// T0 harnesses for flussab::text over the reader model R (C13, C16, C01 link 3, C14 raw loads,
// C08/C04 LineReader::give_up). Included into a scratch copy of flussab/src/text.rs as
// `mod verif_text`; `super::*` reaches the private kernels.

use super::*;
use crate::deferred_reader::{ModelState, Refill, N};

const MAXOFF: usize = 2;
const MAXCONT: usize = 3;
const TEN_POW_N: u128 = 10u128.pow(N as u32);

fn is_digit(b: u8) -> bool {
    b >= b'0' && b <= b'9'
}

/// Independent reference: longest digit run starting at window index `start`:
/// (number of digits, exact value saturating, value exceeded u128).
fn ref_digits(st: &ModelState, start: usize) -> (usize, u128, bool) {
    let mut i = start;
    let mut v: u128 = 0;
    let mut big = false;
    while i < st.len && is_digit(st.data[i]) {
        let d = (st.data[i] - b'0') as u128;
        match v.checked_mul(10).and_then(|x| x.checked_add(d)) {
            Some(x) => v = x,
            None => big = true,
        }
        i += 1;
    }
    (if i >= start { i - start } else { 0 }, v, big)
}

fn byte_at(st: &ModelState, idx: usize) -> Option<u8> {
    if idx < st.len {
        Some(st.data[idx])
    } else {
        None
    }
}

fn max2(a: usize, b: usize) -> usize {
    if a > b {
        a
    } else {
        b
    }
}

// ---------------------------------------------------------------------------------------------
// C13: the 8-byte SWAR kernel, all 2^64 words

#[kani::proof]
pub fn swar_kernel_all_words() {
    let word: u64 = kani::any();
    let bytes = word.to_le_bytes();
    let (value, n) = swar_ascii_digits_u64_le(word);
    let mut k = 0usize;
    let mut v: u32 = 0;
    while k < 8 && is_digit(bytes[k]) {
        v = v * 10 + (bytes[k] - b'0') as u32;
        k += 1;
    }
    assert!(n == k);
    assert!(value == v);
    kani::cover!(k == 8, "eight digits");
    kani::cover!(k == 0, "no digit");
    kani::cover!(k == 3 && v == 907, "three digits");
}

// ---------------------------------------------------------------------------------------------
// C13: simple scanners against the reference, symbolic window / length / cursor / offset / avail

macro_rules! unsigned_simple {
    ($name:ident, $t:ty) => {
        #[kani::proof]
        pub fn $name() {
            let mut r = DeferredReader::model_any(Refill::Nondet);
            let pre = r.snapshot();
            let off: usize = kani::any();
            kani::assume(off <= MAXOFF);
            let (val, end) = ascii_digits::<$t>(&mut r, off);
            let (cnt, v, big) = ref_digits(&pre, pre.pos + off);
            assert!(end == off + cnt, "offset just past the longest digit run");
            let fits = !big && v <= <$t>::MAX as u128;
            assert!(val.is_some() == fits, "overflow reported exactly when not representable");
            if let Some(x) = val {
                assert!(x as u128 == v, "exact value");
            }
            assert!(r.m_pos == pre.pos, "cursor not moved");
            assert!(r.m_hw <= max2(pre.pos, pre.pos + off + cnt + 1), "looks at most one byte past the run");
            kani::cover!(val.is_none() || (<$t>::MAX as u128) >= TEN_POW_N, "overflow (if N digits can overflow the type)");
            kani::cover!(val.is_some() && cnt >= 3, "three digits or more, representable");
            kani::cover!(cnt == 0, "no digit");
            std::mem::forget(r);
        }
    };
}

macro_rules! signed_simple {
    ($name:ident, $t:ty) => {
        #[kani::proof]
        pub fn $name() {
            let mut r = DeferredReader::model_any(Refill::Nondet);
            let pre = r.snapshot();
            let off: usize = kani::any();
            kani::assume(off <= MAXOFF);
            let (val, end) = signed_ascii_digits::<$t>(&mut r, off);
            let start = pre.pos + off;
            let minus = byte_at(&pre, start) == Some(b'-');
            let neg = minus && matches!(byte_at(&pre, start + 1), Some(b) if is_digit(b));
            if minus && !neg {
                // a lone minus sign is not consumed
                assert!(end == off);
                assert!(val == Some(0));
            } else if neg {
                let (cnt, v, big) = ref_digits(&pre, start + 1);
                assert!(end == off + 1 + cnt);
                let fits = !big && (v == 0 || (<$t>::MIN != 0 && v - 1 <= <$t>::MAX as u128));
                assert!(val.is_some() == fits);
                if let Some(x) = val {
                    assert!((x as i128).wrapping_neg() as u128 == v);
                }
                kani::cover!(val.is_none() || (<$t>::MAX as u128) >= TEN_POW_N / 10, "negative overflow (if possible)");
                kani::cover!(val.is_some() && cnt >= 3, "negative, three digits");
            } else {
                let (cnt, v, big) = ref_digits(&pre, start);
                assert!(end == off + cnt);
                let fits = !big && v <= <$t>::MAX as u128;
                assert!(val.is_some() == fits);
                if let Some(x) = val {
                    assert!(x as u128 == v);
                }
                kani::cover!(val.is_none() || (<$t>::MAX as u128) >= TEN_POW_N, "positive overflow (if possible)");
            }
            assert!(r.m_pos == pre.pos);
            std::mem::forget(r);
        }
    };
}

unsigned_simple!(digits_simple_u8, u8);
unsigned_simple!(digits_simple_i8, i8);
unsigned_simple!(digits_simple_u16, u16);
unsigned_simple!(digits_simple_i16, i16);
unsigned_simple!(digits_simple_u32, u32);
unsigned_simple!(digits_simple_i32, i32);
unsigned_simple!(digits_simple_u64, u64);
unsigned_simple!(digits_simple_i64, i64);
unsigned_simple!(digits_simple_usize, usize);
unsigned_simple!(digits_simple_isize, isize);
unsigned_simple!(digits_simple_u128, u128);
unsigned_simple!(digits_simple_i128, i128);
signed_simple!(signed_simple_i8, i8);
signed_simple!(signed_simple_u8, u8);
signed_simple!(signed_simple_i16, i16);
signed_simple!(signed_simple_u16, u16);
signed_simple!(signed_simple_i32, i32);
signed_simple!(signed_simple_u32, u32);
signed_simple!(signed_simple_i64, i64);
signed_simple!(signed_simple_u64, u64);
signed_simple!(signed_simple_isize, isize);
signed_simple!(signed_simple_usize, usize);
signed_simple!(signed_simple_i128, i128);
signed_simple!(signed_simple_u128, u128);

// ---------------------------------------------------------------------------------------------
// C13 / C01: optimised == simple for every content, offset and amount of buffered data.
// The two runs use independent amounts of buffered data and independent refill schedules.

macro_rules! multi_eq_simple {
    ($name:ident, $sname:ident, $t:ty) => {
        #[kani::proof]
        pub fn $name() {
            let mut a = DeferredReader::model_any(Refill::Nondet);
            let mut b = a.fork(Refill::Nondet, false);
            let pre = a.snapshot();
            let off: usize = kani::any();
            kani::assume(off <= MAXOFF);
            let (v1, e1) = ascii_digits::<$t>(&mut a, off);
            let (v2, e2) = ascii_digits_multi::<$t>(&mut b, off);
            assert!(e1 == e2, "same offset");
            assert!(v1 == v2, "same value / same overflow verdict");
            assert!(b.m_pos == pre.pos);
            // the optimised variant requests nothing beyond what the simple one looks at
            assert!(b.m_hw <= max2(pre.pos, pre.pos + e1 + 1));
            kani::cover!(b.m_refills == 0 && e2 >= off + 8, "fast path, eight digits, continuation");
            kani::cover!(b.m_refills == 0 && e2 > off && e2 < off + 8 && b.m_avail >= off + 8, "fast path, short run");
            kani::cover!(b.m_refills > 0, "cold path with refills");
            kani::cover!(v2.is_none() || (<$t>::MAX as u128) >= TEN_POW_N, "overflow (if N digits can overflow the type)");
            std::mem::forget(a);
            std::mem::forget(b);
        }

        #[kani::proof]
        pub fn $sname() {
            let mut a = DeferredReader::model_any(Refill::Nondet);
            let mut b = a.fork(Refill::Nondet, false);
            let pre = a.snapshot();
            let off: usize = kani::any();
            kani::assume(off <= MAXOFF);
            let (v1, e1) = signed_ascii_digits::<$t>(&mut a, off);
            let (v2, e2) = signed_ascii_digits_multi::<$t>(&mut b, off);
            assert!(e1 == e2, "same offset");
            assert!(v1 == v2, "same value / same overflow verdict");
            assert!(b.m_pos == pre.pos);
            assert!(b.m_hw <= max2(pre.pos, pre.pos + max2(e1, off + 1) + 1));
            kani::cover!(b.m_refills == 0 && e2 >= off + 8 && v2.is_some(), "fast path with continuation");
            kani::cover!(b.m_refills == 0 && b.m_avail >= off + 8 && e2 == off + 3, "fast path, short run");
            kani::cover!(b.m_refills > 0, "cold path with refills");
            kani::cover!(e2 == off && b.m_avail >= off + 8, "fast path, nothing consumed");
            std::mem::forget(a);
            std::mem::forget(b);
        }
    };
}

multi_eq_simple!(multi_eq_u8, smulti_eq_u8, u8);
multi_eq_simple!(multi_eq_i8, smulti_eq_i8, i8);
multi_eq_simple!(multi_eq_u16, smulti_eq_u16, u16);
multi_eq_simple!(multi_eq_i16, smulti_eq_i16, i16);
multi_eq_simple!(multi_eq_u32, smulti_eq_u32, u32);
multi_eq_simple!(multi_eq_i32, smulti_eq_i32, i32);
multi_eq_simple!(multi_eq_u64, smulti_eq_u64, u64);
multi_eq_simple!(multi_eq_i64, smulti_eq_i64, i64);
multi_eq_simple!(multi_eq_usize, smulti_eq_usize, usize);
multi_eq_simple!(multi_eq_isize, smulti_eq_isize, isize);
multi_eq_simple!(multi_eq_u128, smulti_eq_u128, u128);
multi_eq_simple!(multi_eq_i128, smulti_eq_i128, i128);

// ---------------------------------------------------------------------------------------------
// C13: the continuation helpers at full width: arbitrary accumulated value, a few more digits.
// This exercises the overflow boundary of every integer type with a short window.

/// Reference for the continuation helpers. Types up to 64 bits: exact accumulation in i128 using
/// x*10 = (x<<3)+(x<<1) (no multiplier circuit), overflow = leaves the type's range at any step
/// (which, the accumulation being monotone in magnitude, is the same as "the final value does not
/// fit"). 128-bit types: checked arithmetic of the type itself.
pub trait RefInt: Copy + PartialEq {
    const WIDE: bool;
    fn to_i128(self) -> i128;
    fn from_i128(v: i128) -> Option<Self>;
    fn step_native(self, d: u8, neg: bool) -> Option<Self>;
}
macro_rules! refint_small {
    ($t:ty) => {
        impl RefInt for $t {
            const WIDE: bool = false;
            fn to_i128(self) -> i128 {
                self as i128
            }
            fn from_i128(v: i128) -> Option<Self> {
                if v >= <$t>::MIN as i128 && v <= <$t>::MAX as i128 {
                    Some(v as $t)
                } else {
                    None
                }
            }
            fn step_native(self, _d: u8, _neg: bool) -> Option<Self> {
                None
            }
        }
    };
}
macro_rules! refint_wide {
    ($t:ty) => {
        impl RefInt for $t {
            const WIDE: bool = true;
            fn to_i128(self) -> i128 {
                0
            }
            fn from_i128(_v: i128) -> Option<Self> {
                None
            }
            fn step_native(self, d: u8, neg: bool) -> Option<Self> {
                let x = self.checked_mul(10)?;
                if neg {
                    x.checked_sub(d as $t)
                } else {
                    x.checked_add(d as $t)
                }
            }
        }
    };
}
refint_small!(i8);
refint_small!(u8);
refint_small!(i16);
refint_small!(u16);
refint_small!(i32);
refint_small!(u32);
refint_small!(i64);
refint_small!(u64);
refint_small!(isize);
refint_small!(usize);
refint_wide!(i128);
refint_wide!(u128);

fn ref_continue<T: RefInt>(st: &ModelState, start: usize, cnt: usize, init: Option<T>, neg: bool) -> Option<T> {
    if T::WIDE {
        let mut acc = init;
        let mut i = 0;
        while i < cnt {
            let d = st.data[start + i] - b'0';
            acc = acc.and_then(|x| x.step_native(d, neg));
            i += 1;
        }
        acc
    } else {
        let mut ok = init.is_some();
        let mut acc: i128 = match init {
            Some(x) => x.to_i128(),
            None => 0,
        };
        let mut i = 0;
        while i < cnt {
            let d = (st.data[start + i] - b'0') as i128;
            acc = (acc << 3) + (acc << 1);
            acc = if neg { acc - d } else { acc + d };
            if T::from_i128(acc).is_none() {
                ok = false;
                acc = 0; // keep the accumulator small; the verdict is already "overflow"
            }
            i += 1;
        }
        if ok {
            T::from_i128(acc)
        } else {
            None
        }
    }
}

macro_rules! cont_harness {
    ($pname:ident, $nname:ident, $t:ty) => {
        #[kani::proof]
        pub fn $pname() {
            let mut r = DeferredReader::model_any(Refill::Nondet);
            let pre = r.snapshot();
            let off: usize = kani::any();
            kani::assume(off <= MAXOFF);
            let init: Option<$t> = if kani::any() { Some(kani::any()) } else { None };
            if let Some(x) = init {
                kani::assume(x >= 0 as $t);
            }
            let (cnt, v, _big) = ref_digits(&pre, pre.pos + off);
            kani::assume(cnt <= MAXCONT); // stated bound: at most MAXCONT further digits
            let (val, end) = ascii_digits_cont_pos::<$t>(&mut r, off, init);
            assert!(end == off + cnt);
            let _ = v;
            let exact = ref_continue::<$t>(&pre, pre.pos + off, cnt, init, false);
            assert!(val == exact);
            kani::cover!(init.is_some() && val.is_none(), "overflow while continuing");
            kani::cover!(init.is_some() && val.is_some() && cnt >= 2, "continued by two digits");
            std::mem::forget(r);
        }

        #[kani::proof]
        pub fn $nname() {
            let mut r = DeferredReader::model_any(Refill::Nondet);
            let pre = r.snapshot();
            let off: usize = kani::any();
            kani::assume(off <= MAXOFF);
            let init: Option<$t> = if kani::any() { Some(kani::any()) } else { None };
            if let Some(x) = init {
                kani::assume(x <= 0 as $t);
            }
            let (cnt, _v, _big) = ref_digits(&pre, pre.pos + off);
            kani::assume(cnt <= MAXCONT);
            let (val, end) = ascii_digits_cont_neg::<$t>(&mut r, off, init);
            assert!(end == off + cnt);
            let exact = ref_continue::<$t>(&pre, pre.pos + off, cnt, init, true);
            assert!(val == exact);
            kani::cover!(init.is_some() && val.is_none(), "overflow while continuing");
            kani::cover!(init.is_some() && val.is_some() && cnt >= 2, "continued by two digits");
            std::mem::forget(r);
        }
    };
}

cont_harness!(cont_pos_i8, cont_neg_i8, i8);
cont_harness!(cont_pos_i16, cont_neg_i16, i16);
cont_harness!(cont_pos_i32, cont_neg_i32, i32);
cont_harness!(cont_pos_i64, cont_neg_i64, i64);
cont_harness!(cont_pos_isize, cont_neg_isize, isize);
cont_harness!(cont_pos_i128, cont_neg_i128, i128);
cont_harness!(cont_pos_u8, cont_neg_u8, u8);
cont_harness!(cont_pos_u16, cont_neg_u16, u16);
cont_harness!(cont_pos_u32, cont_neg_u32, u32);
cont_harness!(cont_pos_u64, cont_neg_u64, u64);
cont_harness!(cont_pos_usize, cont_neg_usize, usize);
cont_harness!(cont_pos_u128, cont_neg_u128, u128);

// ---------------------------------------------------------------------------------------------
// C14: raw 8-byte loads never leave the buffered data. The window fills the model's array and
// the buffered amount may reach the end of the array, so a load guarded by anything weaker than
// `buf_len() >= offset + 8` reads past the array, which CBMC reports.

#[kani::proof]
pub fn raw_load_in_bounds_unsigned() {
    let data: [u8; N] = kani::any();
    let pos: usize = kani::any();
    kani::assume(pos <= N);
    let mut r = DeferredReader::model_with(data, N, pos, Refill::Nondet);
    let off: usize = kani::any();
    kani::assume(off <= MAXOFF);
    let _ = ascii_digits_multi::<u32>(&mut r, off);
    kani::cover!(r.m_refills == 0 && r.m_avail >= off + 8, "fast path taken");
    std::mem::forget(r);
}

#[kani::proof]
pub fn raw_load_in_bounds_signed() {
    let data: [u8; N] = kani::any();
    let pos: usize = kani::any();
    kani::assume(pos <= N);
    let mut r = DeferredReader::model_with(data, N, pos, Refill::Nondet);
    let off: usize = kani::any();
    kani::assume(off <= MAXOFF);
    let _ = signed_ascii_digits_multi::<i32>(&mut r, off);
    kani::cover!(r.m_refills == 0 && r.m_avail >= off + 8, "fast path taken");
    std::mem::forget(r);
}

// ---------------------------------------------------------------------------------------------
// C16: whitespace / newline / next-newline / fixed-sequence scanners

const MAXOFF16: usize = 3;

#[kani::proof]
pub fn helper_tabs_or_spaces() {
    let mut r = DeferredReader::model_any(Refill::Nondet);
    let pre = r.snapshot();
    let off: usize = kani::any();
    kani::assume(off <= MAXOFF16);
    let end = tabs_or_spaces(&mut r, off);
    let mut i = pre.pos + off;
    while i < pre.len && (pre.data[i] == b' ' || pre.data[i] == b'\t') {
        i += 1;
    }
    let cnt = if i >= pre.pos + off { i - (pre.pos + off) } else { 0 };
    assert!(end == off + cnt, "exactly the maximal run of spaces and tabs");
    assert!(r.m_pos == pre.pos && r.m_avail >= pre.avail, "consumes nothing");
    assert!(r.m_hw <= max2(pre.pos, pre.pos + off + cnt + 1), "stops requesting at the deciding byte");
    kani::cover!(cnt >= 2 && r.m_refills >= 1, "run across a refill");
    kani::cover!(r.m_eof_probed && cnt > 0, "run ends at end of input");
    std::mem::forget(r);
}

#[kani::proof]
pub fn helper_newline() {
    let mut r = DeferredReader::model_any(Refill::Nondet);
    let pre = r.snapshot();
    let off: usize = kani::any();
    kani::assume(off <= MAXOFF16);
    let end = newline(&mut r, off);
    let s = pre.pos + off;
    let b0 = byte_at(&pre, s);
    let b1 = byte_at(&pre, s + 1);
    let (exp, looked) = if b0 == Some(b'\n') {
        (off + 1, 1)
    } else if b0 == Some(b'\r') {
        if b1 == Some(b'\n') {
            (off + 2, 2)
        } else {
            (off, 2) // lone CR, CR at end of data
        }
    } else {
        (off, 1)
    };
    assert!(end == exp);
    assert!(r.m_pos == pre.pos && r.m_avail >= pre.avail);
    assert!(r.m_hw <= max2(pre.pos, s + looked));
    kani::cover!(end == off + 2, "CRLF");
    kani::cover!(b0 == Some(b'\r') && end == off, "lone CR");
    kani::cover!(b0 == Some(b'\r') && b1.is_none(), "CR at end of data");
    std::mem::forget(r);
}

#[kani::proof]
pub fn helper_next_newline() {
    let mut r = DeferredReader::model_any(Refill::Nondet);
    let pre = r.snapshot();
    let off: usize = kani::any();
    kani::assume(off <= MAXOFF16);
    let end = next_newline(&mut r, off);
    let mut i = pre.pos + off;
    while i < pre.len && pre.data[i] != b'\n' {
        i += 1;
    }
    let s = pre.pos + off;
    if s <= pre.len {
        let found = i < pre.len;
        let exp = (i - s) + if found { 1 } else { 0 };
        assert!(end == off + exp, "just past the next LF, or the end of input");
        assert!(r.m_hw <= max2(pre.pos, i + 1), "nothing requested past the LF");
        kani::cover!(found && exp >= 3, "LF found after two other bytes");
        kani::cover!(!found && exp >= 1, "no LF before end of input");
    } else {
        assert!(end == off);
    }
    assert!(r.m_pos == pre.pos && r.m_avail >= pre.avail);
    std::mem::forget(r);
}

#[kani::proof]
pub fn helper_fixed() {
    let mut r = DeferredReader::model_any(Refill::Nondet);
    let pre = r.snapshot();
    let off: usize = kani::any();
    kani::assume(off <= MAXOFF16);
    let pat: [u8; 4] = kani::any();
    let plen: usize = kani::any();
    kani::assume(plen <= 4);
    let end = fixed(&mut r, off, &pat[..plen]);
    let s = pre.pos + off;
    // first mismatching index (or plen)
    let mut k = 0;
    while k < plen && byte_at(&pre, s + k) == Some(pat[k]) {
        k += 1;
    }
    if k == plen {
        assert!(end == off + plen, "fully present: passed over");
        assert!(r.m_hw <= max2(pre.pos, s + plen));
    } else {
        assert!(end == off, "not fully present: nothing");
        assert!(r.m_hw <= max2(pre.pos, s + k + 1), "stops requesting at the first mismatching byte");
    }
    assert!(r.m_pos == pre.pos && r.m_avail >= pre.avail);
    kani::cover!(plen == 0, "empty pattern");
    kani::cover!(k == plen && plen == 4, "four bytes matched");
    kani::cover!(k < plen && k >= 2, "mismatch after two matching bytes");
    kani::cover!(k < plen && s + k >= pre.len, "pattern longer than the input");
    std::mem::forget(r);
}

// ---------------------------------------------------------------------------------------------
// C04 link 2 / C08: LineReader::give_up*

pub enum TestErr {
    Io,
    Syntax(LineColumn),
}
impl From<io::Error> for TestErr {
    fn from(e: io::Error) -> Self {
        std::mem::forget(e);
        TestErr::Io
    }
}
impl From<SyntaxError> for TestErr {
    fn from(e: SyntaxError) -> Self {
        let l = e.location;
        std::mem::forget(e);
        TestErr::Syntax(l)
    }
}

/// An arbitrary LineReader satisfying LInv: line >= 1, line_start <= position.
pub fn any_line_reader(refill: Refill) -> LineReader<'static> {
    let reader = DeferredReader::model_any(refill);
    let line: usize = kani::any();
    kani::assume(line >= 1 && line <= usize::MAX / 2);
    let line_start: usize = kani::any();
    kani::assume(line_start <= reader.position());
    LineReader {
        reader,
        line,
        line_start,
    }
}

#[kani::proof]
pub fn line_reader_give_up() {
    let mut lr = any_line_reader(Refill::Nondet);
    let parked = lr.reader.m_err_parked;
    let line = lr.line;
    let pos = lr.reader.position();
    let ls = lr.line_start;
    let at_mark: bool = kani::any();
    let e: TestErr = if at_mark {
        // callers pass a position on the current line at or after its start
        let p: usize = kani::any();
        kani::assume(p >= ls && p <= pos);
        let e = lr.give_up_at(p, String::new());
        if let TestErr::Syntax(l) = &e {
            assert!(l.column == p - ls + 1);
        }
        e
    } else {
        let e = lr.give_up(String::new());
        if let TestErr::Syntax(l) = &e {
            assert!(l.column == pos - ls + 1);
        }
        e
    };
    match e {
        TestErr::Io => {
            assert!(parked, "an I/O error is reported only if one was parked");
            assert!(!lr.reader.m_err_parked, "and it is taken");
        }
        TestErr::Syntax(l) => {
            assert!(!parked, "a parked I/O error always wins over a syntax error");
            assert!(l.line == line);
            assert!(l.column >= 1);
        }
    }
    std::mem::forget(lr);
}

#[kani::proof]
pub fn line_reader_new_and_line_at_offset() {
    let reader = DeferredReader::model_any(Refill::Nondet);
    let p = reader.position();
    let mut lr = LineReader::new(reader);
    assert!(lr.line == 1 && lr.line_start == p);
    let off: usize = kani::any();
    kani::assume(off <= N);
    lr.line_at_offset(off);
    assert!(lr.line == 2 && lr.line_start == p + off);
    std::mem::forget(lr);
}

// ---------------------------------------------------------------------------------------------
// vacuity twin

#[kani::proof]
pub fn reach_text() {
    let mut a = DeferredReader::model_any(Refill::Nondet);
    let off: usize = kani::any();
    kani::assume(off <= MAXOFF);
    let (v, e) = signed_ascii_digits_multi::<i8>(&mut a, off);
    if v == Some(-128) && e == off + 4 {
        assert!(false, "reachability witness");
    }
    std::mem::forget(a);
}
