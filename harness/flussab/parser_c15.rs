// C15: exact three-way choice semantics of the Parsed combinators (flussab/src/parser.rs).
// The input case (Fallthrough / Res(Ok(v)) / Res(Err(e))) and every closure result are symbolic;
// closures count their invocations. The domain (u8 payloads) is finite and covered completely.

use super::*;

fn any_parsed() -> Parsed<u8, u8> {
    let k: u8 = kani::any();
    let v: u8 = kani::any();
    match k % 3 {
        0 => Fallthrough,
        1 => Res(Ok(v)),
        _ => Res(Err(v)),
    }
}

fn any_result() -> Result<u8, u8> {
    let v: u8 = kani::any();
    if kani::any() {
        Ok(v)
    } else {
        Err(v)
    }
}

#[kani::proof]
pub fn c15_or_parse() {
    let p = any_parsed();
    let alt = any_parsed();
    let mut calls = 0u8;
    let r = p.or_parse(|| {
        calls += 1;
        alt
    });
    match p {
        Fallthrough => {
            assert!(calls == 1, "alternative runs iff the previous result was a fallthrough");
            assert!(r == alt);
        }
        _ => {
            assert!(calls == 0);
            assert!(r == p);
        }
    }
}

#[kani::proof]
pub fn c15_or_always_parse() {
    let p = any_parsed();
    let alt = any_result();
    let mut calls = 0u8;
    let r = p.or_always_parse(|| {
        calls += 1;
        alt
    });
    match p {
        Fallthrough => {
            assert!(calls == 1);
            assert!(r == alt);
        }
        Res(x) => {
            assert!(calls == 0);
            assert!(r == x);
        }
    }
}

#[kani::proof]
pub fn c15_or_give_up() {
    let p = any_parsed();
    let e: u8 = kani::any();
    let mut calls = 0u8;
    let r = p.or_give_up(|| {
        calls += 1;
        e
    });
    match p {
        Fallthrough => {
            assert!(calls == 1);
            assert!(r == Err(e));
        }
        Res(x) => {
            assert!(calls == 0);
            assert!(r == x);
        }
    }
}

#[kani::proof]
pub fn c15_optional_matches_from() {
    let p = any_parsed();
    let o = p.optional();
    let m = p.matches();
    match p {
        Fallthrough => {
            assert!(o == Ok(None));
            assert!(m == Ok(false));
        }
        Res(Ok(v)) => {
            assert!(o == Ok(Some(v)));
            assert!(m == Ok(true));
        }
        Res(Err(e)) => {
            assert!(o == Err(e));
            assert!(m == Err(e));
        }
    }
    let r = any_result();
    let q: Parsed<u8, u8> = r.into();
    assert!(q == Res(r));
}

#[kani::proof]
pub fn c15_and_then() {
    let p = any_parsed();
    let cont = any_result();
    let mut calls = 0u8;
    let mut seen = 0u8;
    let r: Parsed<u8, u8> = p.and_then(|v| {
        calls += 1;
        seen = v;
        cont
    });
    match p {
        Res(Ok(v)) => {
            assert!(calls == 1 && seen == v, "continuation runs iff the previous result was a success");
            assert!(r == Res(cont), "its failure is committed, never turned into a fallthrough");
        }
        Res(Err(e)) => {
            assert!(calls == 0);
            assert!(r == Res(Err(e)));
        }
        Fallthrough => {
            assert!(calls == 0);
            assert!(r == Fallthrough);
        }
    }
}

#[kani::proof]
pub fn c15_and_also() {
    let p = any_parsed();
    let cont: Result<(), u8> = if kani::any() { Ok(()) } else { Err(kani::any()) };
    let newv: u8 = kani::any();
    let mut calls = 0u8;
    let r = p.and_also(|v| {
        calls += 1;
        *v = newv;
        cont
    });
    match p {
        Res(Ok(_)) => {
            assert!(calls == 1);
            match cont {
                Ok(()) => assert!(r == Res(Ok(newv))),
                Err(e) => assert!(r == Res(Err(e))),
            }
        }
        other => {
            assert!(calls == 0);
            assert!(r == other);
        }
    }
}

#[kani::proof]
pub fn c15_and_do_map_map_err_err_into() {
    let p = any_parsed();
    let newv: u8 = kani::any();
    let mut calls = 0u8;
    let r = p.and_do(|v| {
        calls += 1;
        *v = newv;
    });
    match p {
        Res(Ok(_)) => assert!(calls == 1 && r == Res(Ok(newv))),
        other => assert!(calls == 0 && r == other),
    }

    let mut mcalls = 0u8;
    let r2: Parsed<u16, u8> = p.map(|v| {
        mcalls += 1;
        v as u16 + 256
    });
    match p {
        Res(Ok(v)) => assert!(mcalls == 1 && r2 == Res(Ok(v as u16 + 256))),
        Res(Err(e)) => assert!(mcalls == 0 && r2 == Res(Err(e))),
        Fallthrough => assert!(mcalls == 0 && r2 == Fallthrough),
    }

    let mut ecalls = 0u8;
    let r3: Parsed<u8, u16> = p.map_err(|e| {
        ecalls += 1;
        e as u16 + 256
    });
    match p {
        Res(Ok(v)) => assert!(ecalls == 0 && r3 == Res(Ok(v))),
        Res(Err(e)) => assert!(ecalls == 1 && r3 == Res(Err(e as u16 + 256))),
        Fallthrough => assert!(ecalls == 0 && r3 == Fallthrough),
    }

    let r4: Parsed<u8, u32> = p.err_into();
    match p {
        Res(Ok(v)) => assert!(r4 == Res(Ok(v))),
        Res(Err(e)) => assert!(r4 == Res(Err(e as u32))),
        Fallthrough => assert!(r4 == Fallthrough),
    }
}

#[kani::proof]
pub fn c15_result_ext() {
    let p = any_result();
    let r1: Result<u8, u32> = ResultExt::err_into(p);
    match p {
        Ok(v) => assert!(r1 == Ok(v)),
        Err(e) => assert!(r1 == Err(e as u32)),
    }

    let cont: Result<(), u8> = if kani::any() { Ok(()) } else { Err(kani::any()) };
    let newv: u8 = kani::any();
    let mut calls = 0u8;
    let r2 = ResultExt::and_also(p, |v| {
        calls += 1;
        *v = newv;
        cont
    });
    match p {
        Ok(_) => {
            assert!(calls == 1);
            match cont {
                Ok(()) => assert!(r2 == Ok(newv)),
                Err(e) => assert!(r2 == Err(e)),
            }
        }
        Err(e) => assert!(calls == 0 && r2 == Err(e)),
    }

    let mut dcalls = 0u8;
    let r3 = ResultExt::and_do(p, |v| {
        dcalls += 1;
        *v = newv;
    });
    match p {
        Ok(_) => assert!(dcalls == 1 && r3 == Ok(newv)),
        Err(e) => assert!(dcalls == 0 && r3 == Err(e)),
    }
}

#[kani::proof]
pub fn reach_c15() {
    let p = any_parsed();
    let alt = any_parsed();
    let r = p.or_parse(|| alt);
    if p == Fallthrough && r == Res(Err(7)) {
        assert!(false, "reachability witness");
    }
}
