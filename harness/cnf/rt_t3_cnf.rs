// T3 round trip for DIMACS cnf clauses: the REAL `write_clause` fills the ghost token queue
// (flussab::verif_q), the REAL `next_clause` and the REAL `clause_lits` read it back through the
// script-mode token stubs. Included into a scratch copy of flussab-cnf/src/cnf.rs.

use super::verif_cnf::any_parser;
use super::*;
use crate::token::verif_stub as st;
use flussab::verif_q as q;

type L = i8;

fn any_clause(limit: isize) -> ([L; 2], usize) {
    let n: usize = kani::any();
    kani::assume(n <= flussab::verif_q::MAXLITS);
    let a: L = kani::any();
    let b: L = kani::any();
    kani::assume(a != 0 && a != L::MIN && (a as isize).abs() <= limit);
    kani::assume(b != 0 && b != L::MIN && (b as isize).abs() <= limit);
    ([a, b], n)
}

#[kani::proof]
pub fn rt_clause() {
    let mut p = any_parser::<L>();
    // a further clause is expected
    kani::assume(!p.clause_limit_active || p.clause_count != p.clause_limit);
    let (lits, n) = any_clause(p.lit_limit);
    
    q::start_capture();
    let mut w = flussab::DeferredWriter::verif_with_capacity(std::io::sink(), 4);
    write_clause(&mut w, &lits[..n]);
    unsafe {
        assert!(!q::AMBIG, "two tokens written back to back would be read as one");
        assert!(!q::OVERFLOW);
    }
    st::reset_script();
    let pre = p.clause_count;
    match p.next_clause() {
        Ok(Some(got)) => {
            assert!(got.len() == n, "clause length changed by write + parse");
            if n >= 1 {
                assert!(got[0] == lits[0]);
            }
            if n >= 2 {
                assert!(got[1] == lits[1]);
            }
            
            assert!(q::len() == 0, "clause line not consumed exactly");
            assert!(unsafe { !q::UNSUPPORTED });
            kani::cover!(n == flussab::verif_q::MAXLITS && lits[0] < 0, "longest clause, first literal negative");
            kani::cover!(n == 0, "empty clause");
        }
        Ok(None) => assert!(false, "clause line read as end of input"),
        Err(e) => {
            std::mem::forget(e);
            assert!(false, "the parser rejects a clause its own writer produced");
        }
    }
    assert!(p.clause_count == pre + 1);
    std::mem::forget(p);
    std::mem::forget(w);
}

// (vacuity: the cover! witnesses above; a separate reach twin of this harness ran out of memory)
