// Contract stubs for flussab-cnf's token layer (T2: parser control logic with the token layer
// replaced by nondeterministic stubs). The runner injects, at the top of every token function,
//   #[cfg(kani)] if verif_stub::on() { return verif_stub::<name>(args); }
// Each stub returns ANY result its contract allows (the contracts are what the T0/T1 harnesses prove
// about the real functions): optional tokens fall through or succeed, they never fail; number
// tokens fall through, succeed with a value inside their limit, or fail; a successful token
// consumed at least one byte (modelled by FUEL, which bounds the number of successes per run).

use super::*;
use crate::error::InnerParseError;
use flussab::text::{LineColumn, SyntaxError};

pub static mut ON: bool = false;
pub static mut FUEL: usize = 0;
pub static mut CALLS: usize = 0;
pub static mut TERMINATOR_OK: usize = 0; // interactive_end_of_line successes
pub static mut CALLS_AFTER_TERMINATOR: usize = 0;
pub static mut EOF_OK: usize = 0;
pub static mut CLAUSE_OK: usize = 0; // clause_lits successes
pub static mut NLITS: usize = 0;
pub static mut LIT0: isize = 0;
pub static mut LIT1: isize = 0;
pub static mut VC_RET: usize = 0;
pub static mut UC_RET: [u64; 2] = [0; 2];
pub static mut UC_N: usize = 0;
pub static mut GROUP_RET: usize = 0;
pub static mut ERRS: usize = 0;
pub static mut ERR_IS_IO: bool = false;
pub static mut AT_END: bool = false; // environment: the input is at its end
pub static mut IO_FAILED: bool = false; // environment: the source failed
pub static mut BLANKS_PENDING: bool = false; // environment: spaces/tabs in front of the cursor

/// T3: the stubs read the ghost token queue filled by the real writer (flussab::verif_q); each
/// stub then behaves as its T0 contract says the real token function does on the rendered text.
pub static mut SCRIPT: bool = false;

pub fn on() -> bool {
    unsafe { ON }
}

fn script() -> bool {
    unsafe { SCRIPT }
}

pub fn reset_script() {
    reset(0);
    unsafe {
        SCRIPT = true;
        AT_END = false;
        IO_FAILED = false;
        BLANKS_PENDING = false;
    }
    flussab::verif_q::stop_capture();
}

mod s {
    use flussab::verif_q as q;

    pub fn is_blank_next() -> bool {
        q::next_is_byte(b' ') || q::next_is_byte(b'\t')
    }

    /// end of word after the token at queue offset k: blank, CR, LF or end of input
    pub fn end_of_word_at(k: usize) -> bool {
        match q::peek_at(k) {
            None => true,
            Some(t) => t.kind == 0 && (t.mag == b' ' as u128 || t.mag == b'\t' as u128 || t.mag == b'\r' as u128 || t.mag == b'\n' as u128),
        }
    }

    pub fn next_is_number() -> bool {
        match q::peek() {
            Some(t) => t.kind == 1 || (t.kind == 0 && t.mag >= b'0' as u128 && t.mag <= b'9' as u128),
            None => false,
        }
    }

    /// newline = LF | CRLF
    pub fn take_newline() -> bool {
        q::take_bytes(b"\n") || q::take_bytes(b"\r\n")
    }
}

fn s_unit(ok: bool) -> Parsed<(), ParseError> {
    if ok {
        Res(Ok(()))
    } else {
        Fallthrough
    }
}

/// contract of uint/int: a number word (digits, end of word) -> value if representable, then
/// trailing blanks eaten; not a number word -> Fallthrough
fn s_number(signed: bool) -> Option<(bool, u128)> {
    use flussab::verif_q as q;
    if !s::next_is_number() || !s::end_of_word_at(1) {
        return None;
    }
    let (neg, mag) = q::take_num().unwrap();
    if neg && !signed {
        // (cannot happen for canonical text of an unsigned value)
        return None;
    }
    q::skip_blanks();
    Some((neg, mag))
}

pub fn reset(fuel: usize) {
    unsafe {
        ON = true;
        FUEL = fuel;
        CALLS = 0;
        TERMINATOR_OK = 0;
        CALLS_AFTER_TERMINATOR = 0;
        EOF_OK = 0;
        CLAUSE_OK = 0;
        NLITS = 0;
        UC_N = 0;
        ERRS = 0;
        INT_OK = 0;
        INT_CALLS = 0;
        INT_UNMARKED = 0;
        SCRIPT = false;
        AT_END = kani::any();
        IO_FAILED = kani::any();
        BLANKS_PENDING = kani::any();
    }
}

fn tick() {
    unsafe {
        CALLS += 1;
        if TERMINATOR_OK > 0 {
            CALLS_AFTER_TERMINATOR += 1;
        }
    }
}

fn consume() -> bool {
    unsafe {
        // no token accepts leading blanks (T0: every token starts at its first byte); tokens eat
        // their own trailing blanks, so after a successful token no blanks are pending
        if FUEL == 0 || AT_END || BLANKS_PENDING {
            false
        } else if kani::any() {
            FUEL -= 1;
            true
        } else {
            false
        }
    }
}

pub fn any_err() -> ParseError {
    // The parsers' control flow never inspects the error kind, so the stub always builds the
    // cheap variant and records in the ghost flag ERR_IS_IO which kind `give_up` produces for the
    // environment (LineReader::give_up returns the parked I/O error iff the source failed; that is
    // the line_reader_give_up harness). Building io::Error values here makes CBMC run out of memory
    // on their recursive drop glue.
    unsafe {
        ERRS += 1;
        ERR_IS_IO = IO_FAILED;
    }
    Box::new(InnerParseError::SyntaxError(SyntaxError {
        location: LineColumn { line: 1, column: 1 },
        msg: String::new(),
    }))
}

fn opt_unit() -> Parsed<(), ParseError> {
    tick();
    if consume() {
        Res(Ok(()))
    } else {
        Fallthrough
    }
}

pub fn skip_whitespace(_input: &mut LineReader) {
    tick();
    if script() {
        flussab::verif_q::skip_blanks();
        return;
    }
    unsafe {
        BLANKS_PENDING = false;
    }
}

pub fn comment(_input: &mut LineReader) -> Parsed<(), ParseError> {
    if script() {
        tick();
        // the writers never emit comment lines; one in the queue is outside the scripted model
        if flussab::verif_q::next_is_byte(b'c') {
            unsafe {
                flussab::verif_q::UNSUPPORTED = true;
            }
        }
        return Fallthrough;
    }
    opt_unit()
}

pub fn newline(_input: &mut LineReader) -> Parsed<(), ParseError> {
    if script() {
        tick();
        if s::take_newline() {
            flussab::verif_q::skip_blanks();
            return Res(Ok(()));
        }
        return Fallthrough;
    }
    opt_unit()
}

pub fn word(_input: &mut LineReader, _fixed: &[u8]) -> Parsed<(), ParseError> {
    if script() {
        tick();
        use flussab::verif_q as q;
        let n = _fixed.len();
        let mut i = 0;
        while i < n {
            match q::peek_at(i) {
                Some(t) if t.kind == 0 && t.mag == _fixed[i] as u128 => {}
                _ => return Fallthrough,
            }
            i += 1;
        }
        if n == 0 || !s::end_of_word_at(n) {
            return Fallthrough;
        }
        q::take_bytes(_fixed);
        q::skip_blanks();
        return Res(Ok(()));
    }
    opt_unit()
}

pub fn fixed(_input: &mut LineReader, _fixed: &[u8]) -> Parsed<(), ParseError> {
    if script() {
        tick();
        return s_unit(!_fixed.is_empty() && flussab::verif_q::take_bytes(_fixed));
    }
    opt_unit()
}

pub fn interactive_strict_comment(_input: &mut LineReader) -> Parsed<(), ParseError> {
    opt_unit()
}

pub fn interactive_skip_line(_input: &mut LineReader) -> Parsed<(), ParseError> {
    opt_unit()
}

pub fn eof(_input: &mut LineReader) -> Parsed<(), ParseError> {
    tick();
    if script() {
        let ok = flussab::verif_q::len() == 0;
        if ok {
            unsafe {
                EOF_OK += 1;
            }
        }
        return s_unit(ok);
    }
    unsafe {
        // contract (eof_token harness): succeeds iff at the end of a source that did not fail
        if AT_END && !IO_FAILED && !BLANKS_PENDING {
            EOF_OK += 1;
            Res(Ok(()))
        } else {
            Fallthrough
        }
    }
}

pub fn interactive_end_of_line(_input: &mut LineReader) -> Parsed<(), ParseError> {
    tick();
    if script() {
        // interactive_newline (no blanks eaten) or a clean end
        let ok = s::take_newline() || flussab::verif_q::len() == 0;
        if ok {
            unsafe {
                TERMINATOR_OK += 1;
            }
        }
        return s_unit(ok);
    }
    unsafe {
        let ok = if AT_END { !IO_FAILED && !BLANKS_PENDING } else { consume() };
        if ok {
            TERMINATOR_OK += 1;
            Res(Ok(()))
        } else {
            Fallthrough
        }
    }
}

pub fn non_terminating_linebreaks(_input: &mut LineReader) -> Result<bool, ParseError> {
    tick();
    if script() {
        // newline (then blanks); the writers never continue a clause on the next line, further
        // blank or comment lines are outside the scripted model
        if !s::take_newline() {
            return Ok(false);
        }
        flussab::verif_q::skip_blanks();
        if flussab::verif_q::next_is_byte(b'c') || flussab::verif_q::next_is_byte(b'\n') || flussab::verif_q::next_is_byte(b'\r') {
            unsafe {
                flussab::verif_q::UNSUPPORTED = true;
            }
        }
        return Ok(true);
    }
    Ok(consume())
}

pub fn var_count<L: Dimacs>(_input: &mut LineReader) -> Parsed<usize, ParseError> {
    tick();
    if script() {
        return match s_number(false) {
            None => Fallthrough,
            Some((_, mag)) if mag <= L::MAX_DIMACS as u128 => {
                unsafe {
                    VC_RET = mag as usize;
                }
                Res(Ok(mag as usize))
            }
            Some(_) => Res(Err(any_err())),
        };
    }
    let k: u8 = kani::any();
    if k == 0 || !consume() {
        return Fallthrough;
    }
    if k == 1 {
        return Res(Err(any_err()));
    }
    let v: usize = kani::any();
    kani::assume(v <= L::MAX_DIMACS as usize); // contract proved by var_count_i8 / var_count_isize
    unsafe {
        VC_RET = v;
    }
    Res(Ok(v))
}

pub fn uint_count<T: FromPrimitive>(_input: &mut LineReader, _what: &str) -> Parsed<T, ParseError> {
    tick();
    if script() {
        return match s_number(false) {
            None => Fallthrough,
            Some((_, mag)) => match T::from_u128(mag) {
                Some(t) => Res(Ok(t)),
                None => Res(Err(any_err())),
            },
        };
    }
    let k: u8 = kani::any();
    if k == 0 || !consume() {
        return Fallthrough;
    }
    if k == 1 {
        return Res(Err(any_err()));
    }
    let v: u64 = kani::any();
    let t = T::from_u64(v);
    kani::assume(t.is_some());
    unsafe {
        if UC_N < 2 {
            UC_RET[UC_N] = v;
            UC_N += 1;
        }
    }
    Res(Ok(t.unwrap()))
}

pub fn clause_group(_input: &mut LineReader, limit: usize, _hard: bool) -> Parsed<usize, ParseError> {
    tick();
    if script() {
        // "{" digits "}" then blanks; accepted iff <= limit (clause_group_limit)
        use flussab::verif_q as q;
        if !q::next_is_byte(b'{') {
            return Fallthrough;
        }
        let num_ok = match q::peek_at(1) {
            Some(t) => t.kind == 1 && !t.neg,
            None => false,
        };
        let close_ok = match q::peek_at(2) {
            Some(t) => t.kind == 0 && t.mag == b'}' as u128,
            None => false,
        };
        if !num_ok || !close_ok {
            return Fallthrough;
        }
        let mag = q::peek_at(1).unwrap().mag;
        q::pop();
        q::pop();
        q::pop();
        q::skip_blanks();
        if mag <= limit as u128 {
            return Res(Ok(mag as usize));
        }
        return Res(Err(any_err()));
    }
    let k: u8 = kani::any();
    if k == 0 || !consume() {
        return Fallthrough;
    }
    if k == 1 {
        return Res(Err(any_err()));
    }
    let g: usize = kani::any();
    kani::assume(g <= limit); // contract proved by clause_group_limit
    unsafe {
        GROUP_RET = g;
    }
    Res(Ok(g))
}

pub fn clause_lits<L: Dimacs>(
    _input: &mut LineReader,
    lits: &mut Vec<L>,
    limit: isize,
    _hard_limit: bool,
) -> Parsed<(), ParseError> {
    tick();
    let k: u8 = kani::any();
    if k == 0 || !consume() {
        return Fallthrough;
    }
    if k == 1 {
        return Res(Err(any_err()));
    }
    // contract (clause_lits T1): on success `lits` holds the literals before the 0, each non-zero
    // and within [-limit, limit]
    lits.clear();
    let n: usize = kani::any();
    kani::assume(n <= 2);
    let l0: isize = kani::any();
    let l1: isize = kani::any();
    kani::assume(l0 != 0 && l0 >= -limit && l0 <= limit);
    kani::assume(l1 != 0 && l1 >= -limit && l1 <= limit);
    if n >= 1 {
        lits.push(L::from_dimacs(l0));
    }
    if n >= 2 {
        lits.push(L::from_dimacs(l1));
    }
    unsafe {
        CLAUSE_OK += 1;
        NLITS = n;
        LIT0 = l0;
        LIT1 = l1;
    }
    Res(Ok(()))
}

pub fn int<T: FromPrimitive>(_input: &mut LineReader) -> Parsed<T, String> {
    tick();
    if script() {
        return match s_number(true) {
            None => Fallthrough,
            Some((neg, mag)) => {
                let t = if mag > i128::MAX as u128 { None } else { T::from_i128(if neg { -(mag as i128) } else { mag as i128 }) };
                match t {
                    Some(t) => Res(Ok(t)),
                    None => Res(Err(String::new())),
                }
            }
        };
    }
    unsafe {
        INT_CALLS += 1;
        if _input.reader.mark() != _input.reader.position() {
            INT_UNMARKED += 1;
        }
    }
    let k: u8 = kani::any();
    if k == 0 || !consume() {
        return Fallthrough;
    }
    if k == 1 {
        return Res(Err(String::new()));
    }
    let v: i64 = kani::any();
    let t = T::from_i64(v);
    kani::assume(t.is_some());
    unsafe {
        INT_RET = v;
        if INT_OK < 4 {
            INT_LOG[INT_OK] = v;
        }
        INT_OK += 1;
    }
    Res(Ok(t.unwrap()))
}
pub static mut INT_RET: i64 = 0;
pub static mut INT_OK: usize = 0;
pub static mut INT_LOG: [i64; 4] = [0; 4];
pub static mut INT_CALLS: usize = 0;
pub static mut INT_UNMARKED: usize = 0; // int() called without the mark at the cursor (C08)

pub fn unexpected(_input: &mut LineReader, _expected: &str) -> ParseError {
    tick();
    any_err()
}

pub fn exceeds_var_count_stub(_input: &mut LineReader) -> ParseError {
    tick();
    any_err()
}
