// T0 harnesses for flussab-cnf's private token layer on the reader model R
// (C06 exact numbers/limits, C07 layout, C08 locations, C04 error never lost, C09 look-ahead,
// C05 no panic/overflow). Included into a scratch copy of flussab-cnf/src/token.rs.

use super::*;
use crate::error::InnerParseError;

include!("@VERIF@/harness/common/prelude.rs");

fn fmt_stub(_args: std::fmt::Arguments<'_>) -> String {
    String::new()
}

// UTF-8 validation of a digit string that only feeds an error message: outside every claim
fn utf8_stub(v: &[u8]) -> Result<&str, std::str::Utf8Error> {
    Ok(unsafe { std::str::from_utf8_unchecked(v) })
}

// ---------------------------------------------------------------------------------------------
// numbers

macro_rules! uint_harness {
    ($name:ident, $t:ty, $spec:expr) => {
        #[kani::proof]
        #[kani::stub(std::str::from_utf8, utf8_stub)]
        pub fn $name() {
            flussab::verif_use_spec($spec);
            let (mut lr, pre) = any_line_reader(Refill::Nondet);
            let r = uint::<$t>(&mut lr);
            let s = pre.st.pos;
            let (cnt, v, big) = ref_digits(&pre.st, s);
            let eow = is_eow(&pre.st, s + cnt);
            let fits = !big && v <= <$t>::MAX as u128;
            match r {
                Fallthrough => {
                    assert!(cnt == 0 || !eow, "falls through only without a number word");
                    assert!(consumed(&lr, &pre) == 0);
                    check_lookahead(&lr, &pre, s + cnt + 1);
                }
                Res(Ok(x)) => {
                    assert!(cnt > 0 && eow && fits, "accepted only if a representable number word");
                    assert!(x as u128 == v, "value is the decimal number written");
                    let e = skip_blanks(&pre.st, s + cnt);
                    assert!(consumed(&lr, &pre) == e - s, "consumes the number and the following blanks");
                    check_lookahead(&lr, &pre, e + 1);
                    kani::cover!(cnt >= 2 && pre.st.data[s] == b'0', "leading zero accepted");
                    kani::cover!(e > s + cnt + 1, "two trailing blanks");
                    kani::cover!(lr.reader.m_eof_probed, "number ends at end of input");
                }
                Res(Err(txt)) => {
                    assert!(cnt > 0 && eow && !fits, "range error exactly on overflow");
                    assert!(consumed(&lr, &pre) == 0, "cursor stays at the offending token");
                    std::mem::forget(txt);
                }
            }
            check_line_tracking(&lr, &pre, false);
            check_error_not_lost(&lr, &pre, false);
            std::mem::forget(lr);
        }
    };
}

uint_harness!(uint_u8, u8, true);
uint_harness!(uint_usize, usize, true);
uint_harness!(uint_u64, u64, true);
uint_harness!(uint_u8_real, u8, false);
uint_harness!(uint_usize_real, usize, false);

macro_rules! int_harness {
    ($name:ident, $t:ty, $spec:expr) => {
        #[kani::proof]
        #[kani::stub(std::str::from_utf8, utf8_stub)]
        pub fn $name() {
            flussab::verif_use_spec($spec);
            let (mut lr, pre) = any_line_reader(Refill::Nondet);
            let r = int::<$t>(&mut lr);
            let s = pre.st.pos;
            let neg = byte_at(&pre.st, s) == Some(b'-')
                && matches!(byte_at(&pre.st, s + 1), Some(b) if is_digit(b));
            let ds = if neg { s + 1 } else { s };
            let (cnt, v, big) = ref_digits(&pre.st, ds);
            let tok_end = ds + cnt;
            let is_num = cnt > 0 && is_eow(&pre.st, tok_end);
            let fits = if neg {
                !big && (v == 0 || v - 1 <= <$t>::MAX as u128)
            } else {
                !big && v <= <$t>::MAX as u128
            };
            match r {
                Fallthrough => {
                    assert!(!is_num);
                    assert!(consumed(&lr, &pre) == 0);
                }
                Res(Ok(x)) => {
                    assert!(is_num && fits);
                    if neg {
                        assert!((x as i128).wrapping_neg() as u128 == v);
                    } else {
                        assert!(x as i128 as u128 == v);
                    }
                    let e = skip_blanks(&pre.st, tok_end);
                    assert!(consumed(&lr, &pre) == e - s);
                    check_lookahead(&lr, &pre, e + 1);
                    kani::cover!(neg && v == 0, "negative zero accepted as zero");
                    kani::cover!(neg && cnt >= 2, "negative two digits");
                }
                Res(Err(txt)) => {
                    assert!(is_num && !fits);
                    assert!(consumed(&lr, &pre) == 0);
                    std::mem::forget(txt);
                }
            }
            check_line_tracking(&lr, &pre, false);
            check_error_not_lost(&lr, &pre, false);
            std::mem::forget(lr);
        }
    };
}

int_harness!(int_i8, i8, true);
int_harness!(int_isize, isize, true);
int_harness!(int_i8_real, i8, false);
int_harness!(int_isize_real, isize, false);

#[kani::proof]
#[kani::stub(std::str::from_utf8, utf8_stub)]
pub fn braced_uint_u8() {
    flussab::verif_use_spec(true);
    let (mut lr, pre) = any_line_reader(Refill::Nondet);
    let r = braced_uint::<u8>(&mut lr);
    let s = pre.st.pos;
    let open = byte_at(&pre.st, s) == Some(b'{');
    let (cnt, v, big) = ref_digits(&pre.st, s + 1);
    let close = byte_at(&pre.st, s + 1 + cnt) == Some(b'}');
    let is_tok = open && cnt > 0 && close;
    let fits = !big && v <= u8::MAX as u128;
    match r {
        Fallthrough => {
            assert!(!is_tok);
            assert!(consumed(&lr, &pre) == 0);
        }
        Res(Ok(x)) => {
            assert!(is_tok && fits && x as u128 == v);
            let e = skip_blanks(&pre.st, s + cnt + 2);
            assert!(consumed(&lr, &pre) == e - s);
            check_lookahead(&lr, &pre, e + 1);
        }
        Res(Err(txt)) => {
            assert!(is_tok && !fits);
            assert!(consumed(&lr, &pre) == 0);
            std::mem::forget(txt);
        }
    }
    check_line_tracking(&lr, &pre, false);
    check_error_not_lost(&lr, &pre, false);
    std::mem::forget(lr);
}

// ---------------------------------------------------------------------------------------------
// words and fixed strings

#[kani::proof]
pub fn end_of_word() {
    let (mut lr, pre) = any_line_reader(Refill::Nondet);
    let off: usize = kani::any();
    kani::assume(off <= 3);
    let r = is_end_of_word(&mut lr, off);
    assert!(r == is_eow(&pre.st, pre.st.pos + off));
    assert!(consumed(&lr, &pre) == 0);
    check_lookahead(&lr, &pre, pre.st.pos + off + 1);
    std::mem::forget(lr);
}

#[kani::proof]
pub fn word_any_pattern() {
    let (mut lr, pre) = any_line_reader(Refill::Nondet);
    let pat: [u8; 4] = kani::any();
    let plen: usize = kani::any();
    kani::assume(plen <= 4);
    // the parsers only pass fixed keywords; a keyword never contains a line feed
    kani::assume(pat[0] != b'\n' && pat[1] != b'\n' && pat[2] != b'\n' && pat[3] != b'\n');
    let r = out_of(word(&mut lr, &pat[..plen]));
    let s = pre.st.pos;
    let mut k = 0;
    while k < plen && byte_at(&pre.st, s + k) == Some(pat[k]) {
        k += 1;
    }
    let is_word = plen > 0 && k == plen && is_eow(&pre.st, s + plen);
    match r {
        Out::Ok(()) => {
            assert!(is_word);
            let e = skip_blanks(&pre.st, s + plen);
            assert!(consumed(&lr, &pre) == e - s);
            check_lookahead(&lr, &pre, e + 1);
        }
        Out::Fall => {
            assert!(!is_word);
            assert!(consumed(&lr, &pre) == 0);
        }
        _ => assert!(false, "word never fails"),
    }
    check_line_tracking(&lr, &pre, false);
    check_error_not_lost(&lr, &pre, false);
    kani::cover!(is_word && plen == 3, "three byte word");
    kani::cover!(k == plen && plen > 0 && !is_word, "prefix of a longer word is not the word");
    std::mem::forget(lr);
}

#[kani::proof]
pub fn fixed_any_pattern() {
    let (mut lr, pre) = any_line_reader(Refill::Nondet);
    let pat: [u8; 4] = kani::any();
    let plen: usize = kani::any();
    kani::assume(plen <= 4);
    let r = out_of(fixed(&mut lr, &pat[..plen]));
    let s = pre.st.pos;
    let mut k = 0;
    while k < plen && byte_at(&pre.st, s + k) == Some(pat[k]) {
        k += 1;
    }
    match r {
        Out::Ok(()) => {
            assert!(plen > 0 && k == plen);
            assert!(consumed(&lr, &pre) == plen);
            check_lookahead(&lr, &pre, s + plen);
        }
        Out::Fall => {
            assert!(plen == 0 || k < plen);
            assert!(consumed(&lr, &pre) == 0);
            check_lookahead(&lr, &pre, s + k + 1);
        }
        _ => assert!(false, "fixed never fails"),
    }
    check_error_not_lost(&lr, &pre, false);
    std::mem::forget(lr);
}

// ---------------------------------------------------------------------------------------------
// comments, line ends, end of input

fn after_next_lf(st: &ModelState, mut i: usize) -> usize {
    while i < st.len && st.data[i] != b'\n' {
        i += 1;
    }
    if i < st.len {
        i + 1
    } else {
        i
    }
}

#[kani::proof]
pub fn comment_token() {
    let (mut lr, pre) = any_line_reader(Refill::Nondet);
    let r = out_of(comment(&mut lr));
    let s = pre.st.pos;
    match r {
        Out::Ok(()) => {
            assert!(byte_at(&pre.st, s) == Some(b'c'));
            let nl_end = after_next_lf(&pre.st, s + 1);
            let e = skip_blanks(&pre.st, nl_end);
            assert!(consumed(&lr, &pre) == e - s, "comment: through the LF (or end of input), then blanks");
            assert!(lr.line == pre.line + 1);
            assert!(lr.line_start == pre.st.base + nl_end);
            check_lookahead(&lr, &pre, e + 1);
            kani::cover!(nl_end == pre.st.len && pre.st.data[nl_end - 1] != b'\n', "comment ends at end of input");
        }
        Out::Fall => {
            assert!(byte_at(&pre.st, s) != Some(b'c'));
            assert!(consumed(&lr, &pre) == 0);
            check_line_tracking(&lr, &pre, false);
        }
        _ => assert!(false, "comment never fails"),
    }
    check_error_not_lost(&lr, &pre, false);
    std::mem::forget(lr);
}

#[kani::proof]
pub fn interactive_strict_comment_token() {
    let (mut lr, pre) = any_line_reader(Refill::Nondet);
    let r = out_of(interactive_strict_comment(&mut lr));
    let s = pre.st.pos;
    let is_c = byte_at(&pre.st, s) == Some(b'c') && byte_at(&pre.st, s + 1) == Some(b' ');
    match r {
        Out::Ok(()) => {
            assert!(is_c);
            let nl_end = after_next_lf(&pre.st, s + 2);
            assert!(consumed(&lr, &pre) == nl_end - s, "no blanks consumed after the LF");
            assert!(lr.line == pre.line + 1);
            assert!(lr.line_start == pre.st.base + nl_end);
            check_lookahead(&lr, &pre, nl_end + if pre.st.data[nl_end - 1] == b'\n' { 0 } else { 1 });
        }
        Out::Fall => {
            assert!(!is_c);
            assert!(consumed(&lr, &pre) == 0);
        }
        _ => assert!(false),
    }
    check_error_not_lost(&lr, &pre, false);
    std::mem::forget(lr);
}

#[kani::proof]
pub fn interactive_skip_line_token() {
    let (mut lr, pre) = any_line_reader(Refill::Nondet);
    let r = out_of(interactive_skip_line(&mut lr));
    let s = pre.st.pos;
    match r {
        Out::Ok(()) => {
            assert!(s < pre.st.len);
            let nl_end = after_next_lf(&pre.st, s);
            assert!(consumed(&lr, &pre) == nl_end - s);
            assert!(lr.line == pre.line + 1);
            assert!(lr.line_start == pre.st.base + nl_end);
            check_lookahead(&lr, &pre, nl_end + if pre.st.data[nl_end - 1] == b'\n' { 0 } else { 1 });
        }
        Out::Fall => {
            assert!(s >= pre.st.len, "falls through only at the end of input");
            assert!(consumed(&lr, &pre) == 0);
        }
        _ => assert!(false),
    }
    check_error_not_lost(&lr, &pre, false);
    std::mem::forget(lr);
}

fn ref_newline(st: &ModelState, s: usize) -> usize {
    if byte_at(st, s) == Some(b'\n') {
        1
    } else if byte_at(st, s) == Some(b'\r') && byte_at(st, s + 1) == Some(b'\n') {
        2
    } else {
        0
    }
}

#[kani::proof]
pub fn newline_token() {
    let (mut lr, pre) = any_line_reader(Refill::Nondet);
    let r = out_of(newline(&mut lr));
    let s = pre.st.pos;
    let n = ref_newline(&pre.st, s);
    match r {
        Out::Ok(()) => {
            assert!(n > 0);
            let e = skip_blanks(&pre.st, s + n);
            assert!(consumed(&lr, &pre) == e - s);
            assert!(lr.line == pre.line + 1);
            assert!(lr.line_start == pre.st.base + s + n);
            // C10: one line end and its blanks per call; nothing is requested beyond the first
            // byte after them (a run of blank lines is not swallowed by look-ahead)
            check_lookahead(&lr, &pre, e + 1);
            kani::cover!(n == 2, "CRLF");
        }
        Out::Fall => {
            assert!(n == 0, "a lone CR is not a newline");
            assert!(consumed(&lr, &pre) == 0);
            check_line_tracking(&lr, &pre, false);
        }
        _ => assert!(false),
    }
    check_error_not_lost(&lr, &pre, false);
    std::mem::forget(lr);
}

#[kani::proof]
pub fn interactive_newline_token() {
    let (mut lr, pre) = any_line_reader(Refill::Nondet);
    let r = out_of(interactive_newline(&mut lr));
    let s = pre.st.pos;
    let n = ref_newline(&pre.st, s);
    match r {
        Out::Ok(()) => {
            assert!(n > 0);
            assert!(consumed(&lr, &pre) == n, "the newline and nothing after it");
            assert!(lr.line == pre.line + 1);
            assert!(lr.line_start == pre.st.base + s + n);
            // C09: nothing beyond the LF was requested
            check_lookahead(&lr, &pre, s + n);
        }
        Out::Fall => {
            assert!(n == 0);
            assert!(consumed(&lr, &pre) == 0);
        }
        _ => assert!(false),
    }
    check_error_not_lost(&lr, &pre, false);
    std::mem::forget(lr);
}

#[kani::proof]
pub fn eof_token() {
    let (mut lr, pre) = any_line_reader(Refill::Nondet);
    let r = out_of(eof(&mut lr));
    let s = pre.st.pos;
    match r {
        Out::Ok(()) => {
            assert!(s == pre.st.len, "clean end only at the end of the delivered data");
            // C04: and only if the source did not fail (or the failure was already reported)
            assert!(!lr.reader.m_err_parked);
            assert!(!pre.st.fault || (pre.st.complete && !pre.st.err_parked));
        }
        Out::Fall => {
            assert!(s < pre.st.len || lr.reader.m_err_parked);
        }
        _ => assert!(false),
    }
    assert!(consumed(&lr, &pre) == 0);
    check_error_not_lost(&lr, &pre, false);
    kani::cover!(r == Out::Fall && s == pre.st.len, "end of a failed source is not a clean end");
    std::mem::forget(lr);
}

#[kani::proof]
pub fn interactive_end_of_line_token() {
    let (mut lr, pre) = any_line_reader(Refill::Nondet);
    let r = out_of(interactive_end_of_line(&mut lr));
    let s = pre.st.pos;
    let n = ref_newline(&pre.st, s);
    match r {
        Out::Ok(()) => {
            if n > 0 {
                assert!(consumed(&lr, &pre) == n);
                check_lookahead(&lr, &pre, s + n);
                assert!(lr.line == pre.line + 1 && lr.line_start == pre.st.base + s + n);
            } else {
                assert!(s == pre.st.len && !lr.reader.m_err_parked);
                assert!(consumed(&lr, &pre) == 0);
            }
        }
        Out::Fall => {
            assert!(n == 0 && (s < pre.st.len || lr.reader.m_err_parked));
            assert!(consumed(&lr, &pre) == 0);
        }
        _ => assert!(false),
    }
    check_error_not_lost(&lr, &pre, false);
    std::mem::forget(lr);
}

#[kani::proof]
pub fn skip_whitespace_token() {
    let (mut lr, pre) = any_line_reader(Refill::Nondet);
    skip_whitespace(&mut lr);
    let e = skip_blanks(&pre.st, pre.st.pos);
    assert!(consumed(&lr, &pre) == e - pre.st.pos);
    check_line_tracking(&lr, &pre, false);
    check_error_not_lost(&lr, &pre, false);
    check_lookahead(&lr, &pre, e + 1);
    std::mem::forget(lr);
}

// ---------------------------------------------------------------------------------------------
// counts with limits (C06) and their error locations (C08); format! is stubbed (messages outside)

#[kani::proof]
#[kani::stub(std::fmt::format, fmt_stub)]
#[kani::stub(std::str::from_utf8, utf8_stub)]
pub fn var_count_i8() {
    flussab::verif_use_spec(true);
    let (mut lr, pre) = any_line_reader(Refill::Nondet);
    let r = out_of(var_count::<i8>(&mut lr));
    let s = pre.st.pos;
    let (cnt, v, big) = ref_digits(&pre.st, s);
    let is_num = cnt > 0 && is_eow(&pre.st, s + cnt);
    match r {
        Out::Fall => assert!(!is_num),
        Out::Ok(x) => {
            assert!(is_num && !big && v <= 127 && x as u128 == v, "variable count within the literal type's range");
            assert!(consumed(&lr, &pre) == skip_blanks(&pre.st, s + cnt) - s);
        }
        Out::Syntax(loc) => {
            assert!(is_num && (big || v > 127));
            check_loc_at(loc, &pre, s);
        }
        Out::Io => {
            assert!(is_num && (big || v > 127));
        }
    }
    check_error_not_lost(&lr, &pre, r == Out::Io);
    kani::cover!(matches!(r, Out::Syntax(_)), "count above the type's maximum rejected");
    kani::cover!(r == Out::Io, "range error with parked I/O error reports the I/O error");
    kani::cover!(matches!(r, Out::Ok(127)), "maximum accepted");
    std::mem::forget(lr);
}

#[kani::proof]
#[kani::stub(std::fmt::format, fmt_stub)]
#[kani::stub(std::str::from_utf8, utf8_stub)]
pub fn var_count_isize() {
    flussab::verif_use_spec(true);
    let (mut lr, pre) = any_line_reader(Refill::Nondet);
    let r = out_of(var_count::<isize>(&mut lr));
    let s = pre.st.pos;
    let (cnt, v, _big) = ref_digits(&pre.st, s);
    let is_num = cnt > 0 && is_eow(&pre.st, s + cnt);
    match r {
        Out::Fall => assert!(!is_num),
        Out::Ok(x) => assert!(is_num && x as u128 == v),
        _ => assert!(false, "an 8-byte number cannot exceed isize::MAX"),
    }
    check_error_not_lost(&lr, &pre, false);
    std::mem::forget(lr);
}

#[kani::proof]
#[kani::stub(std::fmt::format, fmt_stub)]
#[kani::stub(std::str::from_utf8, utf8_stub)]
pub fn uint_count_u8() {
    flussab::verif_use_spec(true);
    let (mut lr, pre) = any_line_reader(Refill::Nondet);
    let r = out_of(uint_count::<u8>(&mut lr, "clause count"));
    let s = pre.st.pos;
    let (cnt, v, big) = ref_digits(&pre.st, s);
    let is_num = cnt > 0 && is_eow(&pre.st, s + cnt);
    match r {
        Out::Fall => assert!(!is_num),
        Out::Ok(x) => assert!(is_num && !big && v <= 255 && x as u128 == v),
        Out::Syntax(loc) => {
            assert!(is_num && (big || v > 255));
            check_loc_at(loc, &pre, s);
        }
        Out::Io => assert!(is_num && (big || v > 255)),
    }
    check_error_not_lost(&lr, &pre, r == Out::Io);
    std::mem::forget(lr);
}

#[kani::proof]
#[kani::stub(std::fmt::format, fmt_stub)]
#[kani::stub(std::str::from_utf8, utf8_stub)]
pub fn clause_group_limit() {
    flussab::verif_use_spec(true);
    let (mut lr, pre) = any_line_reader(Refill::Nondet);
    let limit: usize = kani::any();
    let hard: bool = kani::any();
    let r = out_of(clause_group(&mut lr, limit, hard));
    let s = pre.st.pos;
    let open = byte_at(&pre.st, s) == Some(b'{');
    let (cnt, v, _big) = ref_digits(&pre.st, s + 1);
    let is_tok = open && cnt > 0 && byte_at(&pre.st, s + 1 + cnt) == Some(b'}');
    match r {
        Out::Fall => assert!(!is_tok),
        Out::Ok(x) => {
            assert!(is_tok && x as u128 == v && x <= limit, "group within the limit");
        }
        Out::Syntax(loc) => {
            assert!(is_tok && v > limit as u128);
            check_loc_at(loc, &pre, s);
        }
        Out::Io => assert!(is_tok && v > limit as u128),
    }
    check_error_not_lost(&lr, &pre, r == Out::Io);
    kani::cover!(matches!(r, Out::Syntax(_)), "group above the limit rejected");
    std::mem::forget(lr);
}

// ---------------------------------------------------------------------------------------------
// the error message builder terminates, never panics, points at the cursor, prefers I/O errors

fn lossy_stub(_v: &[u8]) -> std::borrow::Cow<'_, str> {
    std::borrow::Cow::Borrowed("")
}

#[kani::proof]
#[kani::stub(std::fmt::format, fmt_stub)]
#[kani::stub(std::string::String::from_utf8_lossy, lossy_stub)]
pub fn unexpected_total() {
    let (mut lr, pre) = any_line_reader(Refill::Nondet);
    let e = unexpected(&mut lr, "something");
    let (io, loc) = classify_err(e);
    if io {
        check_error_not_lost(&lr, &pre, true);
    } else {
        check_loc_at(loc, &pre, pre.st.pos);
        assert!(!lr.reader.m_err_parked, "a syntax error is never produced while an I/O error is parked");
        check_error_not_lost(&lr, &pre, false);
    }
    assert!(consumed(&lr, &pre) == 0);
    kani::cover!(io && !pre.st.err_parked, "I/O error discovered while collecting the message");
    std::mem::forget(lr);
}

// ---------------------------------------------------------------------------------------------
// T1: line breaks inside a clause (real comment/newline underneath)

#[kani::proof]
pub fn non_terminating_linebreaks_real() {
    let (mut lr, pre) = any_line_reader(Refill::Nondet);
    let r = out_of_result(non_terminating_linebreaks(&mut lr));
    let s = pre.st.pos;
    let n = ref_newline(&pre.st, s);
    // reference walk
    let mut i = s;
    let mut line = pre.line;
    let mut line_start = pre.line_start;
    if n > 0 {
        line += 1;
        line_start = pre.st.base + s + n;
        i = skip_blanks(&pre.st, s + n);
        let mut fuel = 0;
        while fuel <= MODEL_N {
            if byte_at(&pre.st, i) == Some(b'c') {
                let nl_end = after_next_lf(&pre.st, i + 1);
                line += 1;
                line_start = pre.st.base + nl_end;
                i = skip_blanks(&pre.st, nl_end);
            } else {
                let m = ref_newline(&pre.st, i);
                if m == 0 {
                    break;
                }
                line += 1;
                line_start = pre.st.base + i + m;
                i = skip_blanks(&pre.st, i + m);
            }
            fuel += 1;
        }
    }
    match r {
        Out::Ok(b) => {
            assert!(b == (n > 0));
            assert!(consumed(&lr, &pre) == i - s, "newline, then any mix of comments, blank lines and blanks");
            assert!(lr.line == line && lr.line_start == line_start);
            kani::cover!(b && line >= pre.line + 3, "three line breaks/comments");
        }
        _ => assert!(false, "never fails"),
    }
    check_error_not_lost(&lr, &pre, false);
    std::mem::forget(lr);
}

// ---------------------------------------------------------------------------------------------
// vacuity twin

#[kani::proof]
#[kani::stub(std::str::from_utf8, utf8_stub)]
pub fn reach_cnf_token() {
    flussab::verif_use_spec(true);
    let (mut lr, pre) = any_line_reader(Refill::Nondet);
    let r = int::<isize>(&mut lr);
    if let Res(Ok(x)) = r {
        if x == -12 && consumed(&lr, &pre) == 5 && lr.reader.m_refills >= 2 {
            assert!(false, "reachability witness");
        }
    }
    std::mem::forget(lr);
}
