// T2 harnesses: control logic of the WCNF parser (generated from parser_t2.rs, see lib note) from a symbolic parser state, token layer
// replaced by contract stubs (see token_stub.rs). Included into a scratch copy of
// flussab-cnf/src/cnf.rs as `mod verif_cnf` (private fields).

use super::*;
use crate::token::verif_stub as st;
use flussab::{DeferredReader, Refill};

pub fn any_reader() -> LineReader<'static> {
    LineReader::new(DeferredReader::model_any(Refill::All))
}

/// Parser state invariant: 1 <= lit_limit <= MAX_DIMACS; count <= limit while the limit is active.
pub fn any_parser<L: Dimacs>() -> Parser<'static, L> {
    let clause_count: usize = kani::any();
    let clause_limit: usize = kani::any();
    let clause_limit_active: bool = kani::any();
    kani::assume(!clause_limit_active || clause_count <= clause_limit);
    kani::assume(clause_count < usize::MAX);
    let lit_limit: isize = kani::any();
    kani::assume(lit_limit >= 1 && lit_limit <= L::MAX_DIMACS);
    let header = if kani::any() {
        Some(Header {
            var_count: kani::any(),
            clause_count: kani::any(),
            top_weight: kani::any(),
        })
    } else {
        None
    };
    Parser {
        reader: any_reader(),
        clause_count,
        clause_limit,
        clause_limit_active,
        lit_limit,
        lit_limit_is_hard: kani::any(),
        lit_buf: vec![],
        header,
    }
}

static mut WEIGHT: u64 = 0;

macro_rules! next_clause_harness {
    ($name:ident, $l:ty, $reach:expr) => {
        #[kani::proof]
        pub fn $name() {
            let mut p = any_parser::<$l>();
            let fuel: usize = kani::any();
            kani::assume(fuel <= 4);
            st::reset(fuel);
            let pre_count = p.clause_count;
            let active = p.clause_limit_active;
            let limit = p.clause_limit;
            let lit_limit = p.lit_limit;
            let res = unsafe { match p.next_clause() {
                Ok(Some((weight, lits))) => {
                    WEIGHT = weight;
                    let n = lits.len();
                    let l0 = if n >= 1 { lits[0].dimacs() } else { 0 };
                    let l1 = if n >= 2 { lits[1].dimacs() } else { 0 };
                    (1u8, n, l0, l1)
                }
                Ok(None) => (2u8, 0, 0, 0),
                Err(e) => {
                    std::mem::forget(e);
                    (3u8, 0, 0, 0)
                }
            } };
            unsafe {
                match res.0 {
                    1 => {
                        // a clause is handed out only while the declared number is not yet reached
                        assert!(!(active && pre_count == limit), "clause beyond the declared clause count");
                        assert!(st::CLAUSE_OK == 1 && st::TERMINATOR_OK == 1);
                        // the weight is the number the weight token returned
                        assert!(st::UC_N >= 1 && WEIGHT == st::UC_RET[0]);
                        assert!(p.clause_count == pre_count + 1);
                        // the literals are exactly those the token layer produced: no truncation
                        assert!(res.1 == st::NLITS);
                        if res.1 >= 1 {
                            assert!(res.2 == st::LIT0 && res.2 != 0 && res.2 >= -lit_limit && res.2 <= lit_limit);
                        }
                        if res.1 >= 2 {
                            assert!(res.3 == st::LIT1);
                        }
                        // C09: returned right after the line end, without touching the input again
                        assert!(st::CALLS_AFTER_TERMINATOR == 0, "token call after the completing line end");
                    }
                    2 => {
                        // clean end only through the eof token, and only with all declared clauses read
                        assert!(st::EOF_OK == 1, "clean end without the eof token");
                        assert!(!active || pre_count >= limit, "clean end before the declared clause count");
                        assert!(p.clause_count == pre_count);
                        assert!(st::AT_END && !st::IO_FAILED);
                    }
                    _ => {
                        assert!(st::ERRS >= 1);
                        // C04: with a failed source the error is the I/O error
                        assert!(!st::IO_FAILED || st::ERR_IS_IO);
                    }
                }
                // a failed source never yields a clean end
                assert!(!(st::IO_FAILED && res.0 == 2));
                // C07 (completeness): trailing blanks and then the end of a healthy source is a
                // clean end once all declared clauses have been read
                if st::AT_END && !st::IO_FAILED && (!active || pre_count >= limit) {
                    assert!(res.0 == 2, "blank tail of the input not accepted as clean end");
                }
                kani::cover!(res.0 == 1 && res.1 == 2, "clause with two literals");
                kani::cover!(res.0 == 2 && active, "clean end with active limit");
                kani::cover!(res.0 == 3 && st::CALLS >= 5, "error after comments/blank lines");
                kani::cover!(res.0 == 1 && st::CALLS >= 7, "clause after skipped comments");
                if $reach && res.0 == 1 && res.1 == 2 && st::CALLS >= 7 {
                    assert!(false, "reachability witness");
                }
            }
            std::mem::forget(p);
        }
    };
}

next_clause_harness!(next_clause_i8, i8, false);
next_clause_harness!(next_clause_isize, isize, false);
next_clause_harness!(reach_wcnf_parser, i8, true);

macro_rules! new_harness {
    ($name:ident, $l:ty) => {
        #[kani::proof]
        pub fn $name() {
            let fuel: usize = kani::any();
            kani::assume(fuel <= 6);
            st::reset(fuel);
            let ignore: bool = kani::any();
            let r = Parser::<$l>::new(any_reader(), Config::default().ignore_header(ignore));
            unsafe {
                match r {
                    Ok(p) => {
                        match p.header {
                            Some(h) => {
                                // the header values are the ones the number tokens returned
                                assert!(h.var_count == st::VC_RET);
                                assert!(st::UC_N == 2 && h.clause_count as u64 == st::UC_RET[0] && h.top_weight == st::UC_RET[1]);
                                assert!(st::TERMINATOR_OK == 1 && st::CALLS_AFTER_TERMINATOR == 0);
                                let use_vars = !ignore && h.var_count != 0;
                                let use_clauses = !ignore && h.clause_count != 0;
                                assert!(p.lit_limit == if use_vars { h.var_count as isize } else { <$l>::MAX_DIMACS });
                                assert!(p.lit_limit_is_hard == !use_vars);
                                assert!(p.clause_limit_active == use_clauses);
                                if use_clauses {
                                    assert!(p.clause_limit == h.clause_count);
                                }
                            }
                            None => {
                                assert!(p.lit_limit == <$l>::MAX_DIMACS && p.lit_limit_is_hard);
                                assert!(!p.clause_limit_active);
                            }
                        }
                        assert!(p.clause_count == 0);
                        // state invariant for next_clause
                        assert!(p.lit_limit >= 1 && p.lit_limit <= <$l>::MAX_DIMACS);
                        kani::cover!(p.header.is_some() && p.clause_limit_active && !p.lit_limit_is_hard, "header with both limits installed");
                        kani::cover!(p.header.is_some() && ignore, "header ignored");
                        kani::cover!(p.header.is_none(), "no header");
                        std::mem::forget(p);
                    }
                    Err(e) => {
                        assert!(st::ERRS >= 1);
                        std::mem::forget(e);
                    }
                }
            }
        }
    };
}

new_harness!(new_i8, i8);
new_harness!(new_isize, isize);

