// T1: the REAL `clause_lits` (literal range check before the lossy `from_dimacs` cast, zero
// terminator, clause continued over line breaks) with the tokens it calls (`int`,
// `non_terminating_linebreaks`, `unexpected`, `exceeds_var_count`) replaced by contract stubs.
// Included into a scratch copy of flussab-cnf/src/token.rs as `mod verif_cl`.
//
// Also: the Dimacs casts themselves (from_dimacs / dimacs are inverse on [-MAX, MAX]).

use super::verif_stub as st;
use super::*;
use flussab::{DeferredReader, Refill};

macro_rules! clause_lits_harness {
    ($name:ident, $l:ty, $reach:expr) => {
        #[kani::proof]
        pub fn $name() {
            let mut input = LineReader::new(DeferredReader::model_any(Refill::All));
            let fuel: usize = kani::any();
            kani::assume(fuel <= 4);
            st::reset(fuel);
            let limit: isize = kani::any();
            kani::assume(limit >= 1 && limit <= <$l as Dimacs>::MAX_DIMACS);
            let hard: bool = kani::any();
            // stale content from the previous clause
            let mut lits: Vec<$l> = vec![];
            let stale: bool = kani::any();
            if stale {
                lits.push(<$l as Dimacs>::from_dimacs(1));
            }
            let r = clause_lits::<$l>(&mut input, &mut lits, limit, hard);
            let code = match r {
                Fallthrough => 0u8,
                Res(Ok(())) => 1,
                Res(Err(e)) => {
                    std::mem::forget(e);
                    2
                }
            };
            unsafe {
                let nint = st::INT_OK;
                // C08: every number token is scanned with the mark at its first byte
                assert!(st::INT_UNMARKED == 0, "literal scanned without set_mark");
                match code {
                    0 => {
                        // not a clause: nothing consumed (no token succeeded), buffer untouched
                        assert!(nint == 0 && st::CALLS == 1);
                        assert!(lits.len() == if stale { 1 } else { 0 });
                    }
                    1 => {
                        // terminated by a 0 that the token layer produced
                        assert!(nint >= 1 && nint <= 4);
                        assert!(st::INT_LOG[nint - 1] == 0, "clause accepted without terminating zero");
                        // exactly the literals before the 0, in order, none dropped or invented,
                        // each within the limit and surviving the cast unchanged
                        assert!(lits.len() == nint - 1, "literal count differs from the tokens read");
                        let mut i = 0;
                        while i < nint - 1 {
                            let v = st::INT_LOG[i] as isize;
                            assert!(v != 0);
                            assert!(v >= -limit && v <= limit, "literal beyond the limit accepted");
                            assert!(lits[i].dimacs() == v, "literal changed by the cast");
                            i += 1;
                        }
                        assert!(st::ERRS == 0);
                    }
                    _ => {
                        assert!(st::ERRS >= 1);
                        assert!(!st::IO_FAILED || st::ERR_IS_IO);
                    }
                }
                // completeness: in-range literals followed by 0 are accepted (no spurious error
                // unless a token stub itself reported one: then ERRS came from the stub's own Err,
                // which the harness cannot tell apart, so only the range rejections are pinned)
                if code == 2 && nint >= 1 {
                    // an error after k successful ints: either a token error, a missing token, or
                    // the LAST int read is out of range / earlier ones were all in range
                    let mut i = 0;
                    while i + 1 < nint {
                        let v = st::INT_LOG[i] as isize;
                        assert!(v != 0 && v >= -limit && v <= limit, "scanning continued past an out-of-range literal or a zero");
                        i += 1;
                    }
                }
                if nint >= 1 {
                    let last = st::INT_LOG[nint - 1] as isize;
                    if last != 0 && (last < -limit || last > limit) {
                        assert!(code == 2, "out-of-range literal not rejected");
                    }
                }
                kani::cover!(code == 1 && nint == 3, "clause with two literals");
                kani::cover!(code == 1 && nint == 1, "empty clause");
                kani::cover!(code == 2 && nint == 2 && st::ERRS == 1, "error after a literal");
                kani::cover!(code == 1 && st::CALLS > nint + 1, "clause continued after a line break");
                if $reach && code == 1 && nint == 3 && st::CALLS > 4 {
                    assert!(false, "reachability witness");
                }
            }
            std::mem::forget(lits);
            std::mem::forget(input);
        }
    };
}

clause_lits_harness!(clause_lits_i8, i8, false);
clause_lits_harness!(clause_lits_i32, i32, false);
clause_lits_harness!(clause_lits_isize, isize, false);
clause_lits_harness!(reach_clause_lits, i8, true);

macro_rules! dimacs_cast_harness {
    ($name:ident, $l:ty) => {
        #[kani::proof]
        pub fn $name() {
            let v: isize = kani::any();
            let max = <$l as Dimacs>::MAX_DIMACS;
            assert!(max >= 1);
            // the limit is the largest value whose negation is representable as well
            assert!(max as i128 <= <$l>::MAX as i128 && -(max as i128) >= <$l>::MIN as i128);
            kani::assume(v >= -max && v <= max);
            let l = <$l as Dimacs>::from_dimacs(v);
            assert!(l.dimacs() == v, "from_dimacs / dimacs not inverse inside [-MAX_DIMACS, MAX_DIMACS]");
            // injective: distinct integers give distinct literals
            let w: isize = kani::any();
            kani::assume(w >= -max && w <= max && w != v);
            assert!(<$l as Dimacs>::from_dimacs(w) != l);
        }
    };
}

dimacs_cast_harness!(dimacs_cast_i8, i8);
dimacs_cast_harness!(dimacs_cast_i16, i16);
dimacs_cast_harness!(dimacs_cast_i32, i32);
dimacs_cast_harness!(dimacs_cast_i64, i64);
dimacs_cast_harness!(dimacs_cast_isize, isize);
