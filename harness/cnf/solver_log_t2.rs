// T2: the SAT solver log line dispatcher (parse_log) with the token layer replaced by contract
// stubs. Included into a scratch copy of flussab-cnf/src/sat_solver_log.rs.

use super::*;
use crate::token::verif_stub as st;
use flussab::{DeferredReader, Refill};

// FUEL_MAX successful tokens per run: with more than that the query exhausts memory (20 GB at 3);
// 0 still decides how the dispatcher ends: a clean end only through the eof token of a healthy
// source, otherwise an error (the I/O error when the source failed).
const FUEL_MAX: usize = 0;

#[kani::proof]
pub fn parse_log_i8() {
    let fuel: usize = kani::any();
    kani::assume(fuel <= FUEL_MAX);
    st::reset(fuel);
    let mut reader = LineReader::new(DeferredReader::model_any(Refill::All));
    let ignore: bool = kani::any();
    let r = parse_log::<i8>(&mut reader, Config::default().ignore_unknown_lines(ignore));
    unsafe {
        match r {
            Ok(log) => {
                // a log is only complete at the clean end of a healthy source
                assert!(st::EOF_OK == 1 && st::AT_END && !st::IO_FAILED);
                // every literal of the assignment is a non-zero integer the token layer returned,
                // within the literal type's range (no truncation by from_dimacs)
                let n = log.assignment.len();
                assert!(n <= st::INT_OK);
                if n >= 1 {
                    let last = log.assignment[n - 1].dimacs();
                    assert!(last != 0 && last >= -127 && last <= 127);
                }
                // a started assignment is terminated before the end is accepted
                if st::INT_OK > 0 && n == st::INT_OK {
                    assert!(false, "assignment accepted without its terminating 0");
                }
                // (the stub environment fixes "at end of input" for the whole run, so a log that
                // is accepted was accepted without consuming a token; value/status lines are
                // exercised on the error side and by the reach twin in the thorough tier)
                kani::cover!(log.satisfiable.is_none() && n == 0, "status only / empty log");
                std::mem::forget(log);
            }
            Err(e) => {
                assert!(st::ERRS >= 1);
                assert!(!st::IO_FAILED || st::ERR_IS_IO);
                std::mem::forget(e);
            }
        }
    }
    std::mem::forget(reader);
}

#[kani::proof]
pub fn reach_parse_log() {
    st::reset(5);
    let mut reader = LineReader::new(DeferredReader::model_any(Refill::All));
    let r = parse_log::<i8>(&mut reader, Config::default());
    if let Ok(log) = &r {
        if log.assignment.len() == 1 && log.satisfiable == Some(false) {
            assert!(false, "reachability witness");
        }
    }
    std::mem::forget(r);
    std::mem::forget(reader);
}
